//! C14 — standard gate unitaries match the Quil specification (lifted with qubit 0 as the least
//! significant bit).
//!
//! Oracle: `model::numeric_gates::spec_matrix` (the 22 matrices written down from the Quil
//! specification) lifted by bit arithmetic (`model::numeric_gates::lift`).  Observed through
//! `Gate::to_unitary(n)` and through `Program::to_unitary(n)` of the single-gate program.
//!
//! Workload: every standard gate x every n in 1..=N (N = 4 quick, 5 thorough) x every injective
//! placement of the gate's qubits into 0..n x a parameter set (0, pi/2 written `pi/2`, -pi/2, pi
//! written `pi`, 1, a prefix-minus form, and seed-dependent random angles in [-2 pi, 2 pi]).
//! The placement space is enumerated completely; the parameter set is sampled.

use crate::core::{guarded, Ctx};
use crate::gen::numeric_gates::{random_angle, to_mat, GateCase, ParamForm};
use crate::model::numeric_gates::{
    gate_shape, injective_placements, lift, self_check, spec_matrix, Mat, STANDARD_GATES,
};
use crate::props::{PropInfo, DEFAULT};
use quil_rs::instruction::Instruction;
use quil_rs::Program;
use serde_json::json;

pub static INFO: PropInfo = PropInfo {
    id: "C14",
    run,
    rule: "cases: every one of the 22 standard gates x every n in 1..=4 (quick) / 1..=5 (thorough) x every injective placement of the gate's qubits into 0..n (enumerated completely) x a parameter set for the 9 parameterised gates {0, pi/2 as `pi/2`, -pi/2, pi as `pi`, 1, -(0.75) as a prefix expression, 600 (quick) / 3000 (thorough) seed-dependent random angles (half in [-2pi, 2pi], the rest up to +-8pi, multiples of pi/2, magnitudes up to 1000 and tiny angles) plus 2pi, 3pi, -2.5pi, 7pi, -(9), 100}. Each case is observed through Gate::to_unitary(n) and through Program::to_unitary(n) of the one-gate program and compared entry-wise (1e-9 absolute, after the conditioning filter) with the specification matrix lifted by bit arithmetic. Every case is a distinct (gate, n, placement, parameter) and counts as non-trivial when at least one path returned a matrix.",
    assumptions: &[
        "the specification matrices in model/numeric_gates.rs are those of the Quil specification, section Standard Gates (first listed qubit = most significant bit of the gate's own matrix)",
        "parameters are real constants presented as Number, `pi`, `pi/d` or a prefix minus of a Number",
    ],
    exhaustive_quick: false,
    exhaustive_thorough: false,
    exhaustive_note: "the (gate, n, placement) space is enumerated completely for n <= 4 (quick) / n <= 5 (thorough: the bound named by the property); the real parameter is sampled",
    min_nontrivial: 500,
    required_counters: &["path:gate:matrix", "path:program:matrix", "arity:1", "arity:2", "arity:3", "n:4"],
    ..DEFAULT
};

const TOL: f64 = 1e-9;

/// Conditioning filter (DESIGN 3.3): the reference matrix recomputed at relatively / absolutely
/// perturbed parameters must move by less than TOL/10, otherwise the case is ill-conditioned.
fn well_conditioned(name: &str, theta: f64, reference: &Mat) -> bool {
    for s in [-1.0, 1.0] {
        let t = theta * (1.0 + s * 1e-14) + s * 1e-13;
        match spec_matrix(name, t) {
            Some(m) => {
                if m.max_abs_diff(reference).0 > TOL / 10.0 {
                    return false;
                }
            }
            None => return false,
        }
    }
    reference.all_finite()
}

/// The library's own matrix of the unmodified gate (canonical placement k-1 .. 0 in a k-qubit
/// space, where lifting is the identity).  Used only to classify a mismatch.
fn observed_own_matrix(name: &'static str, param: Option<ParamForm>, k: usize) -> Option<Mat> {
    let case = GateCase {
        name,
        mods: vec![],
        params: param.into_iter().collect(),
        qubits: (0..k).rev().collect(),
    };
    let mut g = case.build_direct().ok()?;
    let r = guarded(move || g.to_unitary(k as u64)).ok()?.ok()?;
    to_mat(&r)
}

fn run(ctx: &mut Ctx) {
    if let Err(e) = self_check() {
        // a wrong model must never be reported as a defect of the library: observe nothing, so
        // the run fails as a check error (exit 2)
        ctx.inconclusive(&format!("model-self-check-failed:{e}"));
        return;
    }
    let tier = ctx.tier;
    let n_max = tier.pick(4usize, 5usize);
    let n_random = tier.pick(600usize, 3000usize);

    // parameter set, identical in all shards
    let mut grng = ctx.global_rng(14);
    let mut param_set = vec![
        ParamForm::Num(0.0),
        ParamForm::PiDiv(2.0),
        ParamForm::Num(-std::f64::consts::FRAC_PI_2),
        ParamForm::Pi,
        ParamForm::Num(1.0),
        ParamForm::Neg(0.75),
        // more than one turn: RX/RY/RZ have period 4 pi, the phase gates 2 pi
        ParamForm::Num(2.0 * std::f64::consts::PI),
        ParamForm::Num(3.0 * std::f64::consts::PI),
        ParamForm::Num(-2.5 * std::f64::consts::PI),
        ParamForm::Num(7.0 * std::f64::consts::PI),
        ParamForm::Neg(9.0),
        ParamForm::Num(100.0),
    ];
    for _ in 0..n_random {
        param_set.push(ParamForm::Num(random_angle(&mut grng)));
    }

    // a fixed battery of small readable cases first (shard 0 only): every gate at theta = 1 in
    // the smallest space, qubits in listing order 0 1 2
    if ctx.shard == 0 {
        for name in STANDARD_GATES {
            let (k, np) = gate_shape(name).expect("standard gate");
            let case = GateCase {
                name,
                mods: vec![],
                params: if np == 0 { vec![] } else { vec![ParamForm::Num(1.0)] },
                qubits: (0..k).collect(),
            };
            one_case(ctx, &case, k, k);
            if ctx.done() {
                return;
            }
        }
    }

    let mut idx = 0u64;
    for name in STANDARD_GATES {
        let (k, np) = gate_shape(name).expect("standard gate");
        let params: Vec<Option<ParamForm>> = if np == 0 {
            vec![None]
        } else {
            param_set.iter().copied().map(Some).collect()
        };
        for n in k..=n_max {
            for placement in injective_placements(k, n) {
                for p in &params {
                    idx += 1;
                    if !ctx.mine(idx) {
                        continue;
                    }
                    let case = GateCase {
                        name,
                        mods: vec![],
                        params: p.iter().copied().collect(),
                        qubits: placement.clone(),
                    };
                    one_case(ctx, &case, n, k);
                    if ctx.done() {
                        return;
                    }
                }
            }
        }
    }
}

fn one_case(ctx: &mut Ctx, case: &GateCase, n: usize, k: usize) {
    let text = case.text();
    let desc = json!({"gate": text, "n_qubits": n}).to_string();
    // everything is generated; now announce and execute
    let theta = case.params.first().map(|p| p.value()).unwrap_or(0.0);
    let own_ref = spec_matrix(case.name, theta).expect("standard gate");
    let expected = lift(&own_ref, &case.qubits, n);
    let gate = match case.build_direct() {
        Ok(g) => g,
        Err(e) => {
            // Gate::new refusing a standard gate name would be a generator problem
            if ctx.begin(&desc) {
                ctx.inconclusive(&format!("gate-constructor-rejected:{e}"));
            }
            return;
        }
    };
    if !ctx.begin(&desc) {
        return;
    }
    ctx.count(&format!("gate:{}", case.name));
    ctx.count(&format!("arity:{k}"));
    ctx.count(&format!("n:{n}"));
    if let Some(p) = case.params.first() {
        ctx.count(&format!("param-form:{}", p.kind()));
    }
    if !well_conditioned(case.name, theta, &own_ref) {
        ctx.inconclusive("ill-conditioned-reference");
        return;
    }

    // path 1: Gate::to_unitary
    let mut g1 = gate.clone();
    let r1 = guarded(move || g1.to_unitary(n as u64));
    // path 2: Program::to_unitary of the single-gate program
    let g2 = gate.clone();
    let r2 = guarded(move || {
        let mut p = Program::new();
        p.add_instruction(Instruction::Gate(g2));
        p.to_unitary(n as u64)
    });

    let mut any_matrix = false;
    let mut gate_path_ok = false;
    let mut observed_gate: Option<Mat> = None;

    match r1 {
        Err(p) => {
            ctx.count("path:gate:panic");
            ctx.violation(&p.signature(), json!({"path": "Gate::to_unitary", "panic": p.to_json()}));
        }
        Ok(Err(e)) => {
            ctx.count("path:gate:error");
            ctx.violation(
                &format!("unexpected-error:{}:{}", case.name, error_class(&format!("{e:?}"))),
                json!({"path": "Gate::to_unitary", "error": format!("{e}")}),
            );
        }
        Ok(Ok(a)) => match to_mat(&a) {
            Some(m) if m.n == expected.n => {
                any_matrix = true;
                ctx.count("path:gate:matrix");
                let (d, r, c) = m.max_abs_diff(&expected);
                if d > TOL {
                    ctx.count("outcome:gate-path-mismatch");
                    let sig = classify(case, k);
                    ctx.violation(
                        &sig,
                        json!({
                            "path": "Gate::to_unitary", "max_abs_diff": d, "at": [r, c],
                            "observed_entry": format!("{}", m.at(r, c)),
                            "expected_entry": format!("{}", expected.at(r, c)),
                            "observed": m.show(), "expected": expected.show(),
                        }),
                    );
                } else {
                    ctx.count("outcome:gate-path-match");
                    gate_path_ok = true;
                }
                observed_gate = Some(m);
            }
            _ => {
                ctx.count("path:gate:bad-shape");
                ctx.violation(
                    &format!("wrong-dimension:{}", case.name),
                    json!({"path": "Gate::to_unitary", "shape": format!("{:?}", a.dim()), "expected": expected.n}),
                );
            }
        },
    }

    match r2 {
        Err(p) => {
            ctx.count("path:program:panic");
            ctx.violation(&p.signature(), json!({"path": "Program::to_unitary", "panic": p.to_json()}));
        }
        Ok(Err(e)) => {
            ctx.count("path:program:error");
            // only a finding of its own when the gate path did produce a matrix
            if observed_gate.is_some() {
                ctx.violation(
                    &format!("program-path-error:{}", case.name),
                    json!({"path": "Program::to_unitary", "error": format!("{e}")}),
                );
            }
        }
        Ok(Ok(a)) => match to_mat(&a) {
            Some(m) if m.n == expected.n => {
                any_matrix = true;
                ctx.count("path:program:matrix");
                let (d, r, c) = m.max_abs_diff(&expected);
                if d > TOL {
                    ctx.count("outcome:program-path-mismatch");
                    // same root cause as the gate path unless that one matched
                    let sig = if gate_path_ok {
                        format!("program-differs-from-gate:{}", case.name)
                    } else {
                        classify(case, k)
                    };
                    ctx.violation(
                        &sig,
                        json!({
                            "path": "Program::to_unitary", "max_abs_diff": d, "at": [r, c],
                            "observed_entry": format!("{}", m.at(r, c)),
                            "expected_entry": format!("{}", expected.at(r, c)),
                        }),
                    );
                } else {
                    ctx.count("outcome:program-path-match");
                }
            }
            _ => {
                ctx.violation(
                    &format!("wrong-dimension:{}", case.name),
                    json!({"path": "Program::to_unitary", "shape": format!("{:?}", a.dim())}),
                );
            }
        },
    }

    if any_matrix {
        ctx.nontrivial_input();
    }
    ctx.sample(
        if case.params.is_empty() { "constant-gate" } else { "parameterised-gate" },
        json!({"gate": text, "n_qubits": n, "expected_own_matrix": own_ref.show()}),
    );
}

/// One signature per root cause: a wrong table entry (`wrong-matrix:<GATE>`) when the library's
/// own matrix of the gate already differs from the specification, `wrong-lifting:<k>-qubit` when
/// the own matrix is right and only the lifted one is wrong.
fn classify(case: &GateCase, k: usize) -> String {
    let theta = case.params.first().map(|p| p.value()).unwrap_or(0.0);
    let spec = spec_matrix(case.name, theta).expect("standard gate");
    match observed_own_matrix(case.name, case.params.first().copied(), k) {
        Some(own) if own.n == spec.n => {
            if own.max_abs_diff(&spec).0 > TOL {
                format!("wrong-matrix:{}", case.name)
            } else {
                format!("wrong-lifting:{k}-qubit-gate")
            }
        }
        _ => format!("wrong-matrix-or-lifting:{}", case.name),
    }
}

fn error_class(debug: &str) -> String {
    debug
        .chars()
        .take_while(|c| c.is_ascii_alphanumeric())
        .collect()
}
