//! C02 — parsed programs print to text that re-parses to the same program.
//!
//! Metamorphic oracle on every text the real parser accepts:
//!   P = parse(t);  s = to_quil(P) must succeed;  P2 = parse(s) must succeed and == P;
//!   to_quil(P2) must be byte-identical to s.
//! Differences are classified by (instruction kind, field, difference class) for the signature.

use crate::core::{clip, guarded, Ctx};
use crate::gen::text::{mutate_bytes, mutate_tokens, TextGen};
use crate::props::{PropInfo, DEFAULT};
use quil_rs::instruction::Instruction;
use quil_rs::quil::Quil;
use quil_rs::Program;
use serde_json::json;
use std::str::FromStr;

pub static INFO: PropInfo = PropInfo {
    id: "C02",
    run,
    rule: "texts: grammar-generated programs covering every instruction kind and operand form (all command keywords, modifier stacks, DEFGATE in four forms, DEFCIRCUIT, DEFCAL/DEFCAL MEASURE blocks, DEFFRAME, DEFWAVEFORM, DECLARE SHARING/OFFSET, PRAGMA, CALL, Quil-T, comments/;/tabs), a battery of hand-picked operand shapes, and byte/token mutants that the parser still accepts. distinct = distinct accepted text with >=1 instruction; non-trivial = same (the four-step round trip was evaluated). Coverage lists the instruction kinds round-tripped.",
    assumptions: &[
        "Program == is the library's own derived equality (what the property calls 'equal')",
        "a difference between the two serializations that is ONLY a permutation of DEFFRAME blocks is hash-order nondeterminism owned by C08 and is counted as attributed-to-C08, not as a C02 violation",
    ],
    crash_is_violation: true,
    min_nontrivial: 2000,
    required_counters: &[
        "kind:Gate", "kind:Move", "kind:Arithmetic", "kind:Comparison", "kind:BinaryLogic", "kind:UnaryLogic",
        "kind:Convert", "kind:Exchange", "kind:Load", "kind:Store", "kind:Declaration", "kind:Measurement",
        "kind:Reset", "kind:Label", "kind:Jump", "kind:JumpWhen", "kind:JumpUnless", "kind:Halt", "kind:Wait",
        "kind:Nop", "kind:Pragma", "kind:Include", "kind:Call", "kind:Pulse", "kind:Capture", "kind:RawCapture",
        "kind:Delay", "kind:Fence", "kind:SetFrequency", "kind:SetPhase", "kind:SetScale", "kind:ShiftFrequency",
        "kind:ShiftPhase", "kind:SwapPhases", "kind:GateDefinition", "kind:CircuitDefinition",
        "kind:CalibrationDefinition", "kind:MeasureCalibrationDefinition", "kind:FrameDefinition",
        "kind:WaveformDefinition",
    ],
    ..DEFAULT
};

pub fn kind_of(i: &Instruction) -> String {
    let d = format!("{i:?}");
    d.split(['(', ' ', '{']).next().unwrap_or("?").to_string()
}

/// First differing "word" of two Debug strings, with the nearest preceding `field:` name.
fn debug_diff(a: &str, b: &str) -> (String, String, String) {
    // words of a Debug rendering; a quoted string (with its escapes) is one word
    fn words(s: &str) -> Vec<String> {
        let mut out = Vec::new();
        let mut cur = String::new();
        let mut chars = s.chars().peekable();
        while let Some(c) = chars.next() {
            if c == '"' {
                if !cur.is_empty() {
                    out.push(std::mem::take(&mut cur));
                }
                let mut lit = String::from("\"");
                while let Some(d) = chars.next() {
                    lit.push(d);
                    if d == '\\' {
                        if let Some(e) = chars.next() {
                            lit.push(e);
                        }
                    } else if d == '"' {
                        break;
                    }
                }
                out.push(lit);
            } else if c.is_alphanumeric() || c == '_' || c == '.' || c == '-' || c == ':' {
                cur.push(c);
            } else if !cur.is_empty() {
                out.push(std::mem::take(&mut cur));
            }
        }
        if !cur.is_empty() {
            out.push(cur);
        }
        out
    }
    let (wa, wb) = (words(a), words(b));
    let mut field = String::from("-");
    for k in 0..wa.len().max(wb.len()) {
        let x = wa.get(k).map(String::as_str).unwrap_or("<end>");
        let y = wb.get(k).map(String::as_str).unwrap_or("<end>");
        if x == y {
            if let Some(f) = x.strip_suffix(':') {
                field = f.to_string();
            }
            continue;
        }
        let norm = |w: &str| {
            if w.chars().next().is_some_and(|c| c.is_ascii_digit() || c == '-' || c == '.') {
                "<number>".to_string()
            } else if w.starts_with('"') {
                "<string>".to_string()
            } else {
                w.trim_end_matches(':').to_string()
            }
        };
        return (field, norm(x), norm(y));
    }
    (field, "?".into(), "?".into())
}

fn normalise_msg(m: &str) -> String {
    let mut out = String::new();
    let mut last_digit = false;
    for c in m.chars() {
        if c.is_ascii_digit() {
            if !last_digit {
                out.push('N');
            }
            last_digit = true;
        } else {
            last_digit = false;
            out.push(if c == '\n' { ' ' } else { c });
        }
    }
    out
}

/// Split serialized text into top-level items (a definition with its indented block is one item).
fn items(s: &str) -> Vec<String> {
    let mut out: Vec<String> = Vec::new();
    let mut in_string = false; // a quoted string may span lines
    for line in s.lines() {
        let continues = in_string || line.starts_with(' ') || line.starts_with('\t');
        if continues && !out.is_empty() {
            let last = out.last_mut().unwrap();
            last.push('\n');
            last.push_str(line);
        } else {
            out.push(line.to_string());
        }
        let mut escaped = false;
        for c in line.chars() {
            if escaped {
                escaped = false;
            } else if in_string && c == '\\' {
                escaped = true;
            } else if c == '"' {
                in_string = !in_string;
            } else if c == '#' && !in_string {
                break;
            }
        }
    }
    out
}

/// Instructions nested in a definition block, if any.
fn block_of(i: &Instruction) -> Option<&Vec<Instruction>> {
    match i {
        Instruction::CalibrationDefinition(c) => Some(&c.instructions),
        Instruction::MeasureCalibrationDefinition(c) => Some(&c.instructions),
        Instruction::CircuitDefinition(c) => Some(&c.instructions),
        _ => None,
    }
}

/// Describe the first difference between two instructions, descending into definition blocks so
/// that the signature names the innermost instruction kind that actually differs.
fn describe_difference(a: &Instruction, b: &Instruction) -> (String, serde_json::Value) {
    if let (Some(ba), Some(bb)) = (block_of(a), block_of(b)) {
        if kind_of(a) == kind_of(b) && ba.len() == bb.len() {
            if let Some((x, y)) = ba.iter().zip(bb.iter()).find(|(x, y)| x != y) {
                let (sig, detail) = describe_difference(x, y);
                return (format!("{sig}(in-{})", kind_of(a)), detail);
            }
        }
    }
    let (da, db) = (format!("{a:?}"), format!("{b:?}"));
    let (field, x, y) = debug_diff(&da, &db);
    (
        format!("{}:{field}:{x}->{y}", kind_of(a)),
        json!({"original": clip(&da, 500), "reparsed": clip(&db, 500), "printed_as": a.to_quil_or_debug()}),
    )
}

/// Find the innermost instruction whose own text does not parse, and a coarse reason class.
fn find_unparseable(listing: &[Instruction]) -> (String, String) {
    for i in listing {
        if let Ok(t) = i.to_quil() {
            if Program::from_str(&t).is_err() {
                if let Some(block) = block_of(i) {
                    let (k, t2) = find_unparseable(block);
                    if k != "?" {
                        return (format!("{k}(in-{})", kind_of(i)), t2);
                    }
                }
                return (kind_of(i), t);
            }
        }
    }
    ("?".into(), String::new())
}

fn reason_class(text: &str) -> &'static str {
    let long_digits = text
        .split(|c: char| !c.is_ascii_digit())
        .any(|run| run.len() >= 40);
    if long_digits {
        "long-digit-run"
    } else if text.contains("--") {
        "double-minus"
    } else {
        "other"
    }
}

fn only_defframe_permutation(a: &str, b: &str) -> bool {
    let (ia, ib) = (items(a), items(b));
    let non = |v: &[String]| -> Vec<String> {
        v.iter().filter(|x| !x.starts_with("DEFFRAME")).cloned().collect()
    };
    let mut fa: Vec<String> = ia.iter().filter(|x| x.starts_with("DEFFRAME")).cloned().collect();
    let mut fb: Vec<String> = ib.iter().filter(|x| x.starts_with("DEFFRAME")).cloned().collect();
    fa.sort();
    fb.sort();
    non(&ia) == non(&ib) && fa == fb && fa.len() >= 2
}

pub fn check_text(ctx: &mut Ctx, text: &str, workload: &str) {
    if !ctx.begin(text) {
        return;
    }
    ctx.count(workload);
    let p = match guarded(|| Program::from_str(text)) {
        Err(_) => {
            ctx.inconclusive("parser-panicked(owned by C01)");
            return;
        }
        Ok(Err(_)) => {
            ctx.count("outcome:rejected-by-parser");
            return;
        }
        Ok(Ok(p)) => p,
    };
    let listing = p.to_instructions();
    if listing.is_empty() {
        ctx.count("outcome:empty-program");
        return;
    }
    ctx.nontrivial_input();
    for i in &listing {
        ctx.count(&format!("kind:{}", kind_of(i)));
    }
    // 1. serialization succeeds
    let s = match guarded(|| p.to_quil()) {
        Err(pn) => {
            ctx.violation(&format!("to-quil-{}", pn.signature()), json!({"panic": pn.to_json()}));
            return;
        }
        Ok(Err(e)) => {
            let kinds: Vec<String> = listing
                .iter()
                .filter(|i| i.to_quil().is_err())
                .map(kind_of)
                .collect();
            ctx.violation(
                &format!("to-quil-error:{}:{}", kinds.first().cloned().unwrap_or_default(), normalise_msg(&format!("{e:?}")).chars().take(40).collect::<String>()),
                json!({"error": format!("{e:?}")}),
            );
            return;
        }
        Ok(Ok(s)) => s,
    };
    // 2. output parses
    let p2 = match guarded(|| Program::from_str(&s)) {
        Err(pn) => {
            ctx.violation(&format!("reparse-{}", pn.signature()), json!({"printed": clip(&s, 600), "panic": pn.to_json()}));
            return;
        }
        Ok(Err(e)) => {
            // which instruction's own text fails to parse?
            let (culprit, culprit_text) = find_unparseable(&listing);
            let msg = format!("{e}");
            let reason = normalise_msg(msg.lines().last().unwrap_or("")).chars().take(60).collect::<String>();
            ctx.violation(
                &format!("reparse-error:{culprit}:{}", reason_class(&culprit_text)),
                json!({"printed": clip(&s, 600), "culprit_instruction": clip(&culprit_text, 300), "error": clip(&msg, 300), "reason": reason}),
            );
            return;
        }
        Ok(Ok(p2)) => p2,
    };
    // 3. equal program
    if p2 != p {
        let l2 = p2.to_instructions();
        let mut sig = String::from("reparse-differs:listing-equal-but-programs-unequal");
        let mut detail = json!({"printed": clip(&s, 600)});
        // Every public component equal and only the (private) used-qubit cache differs: that is
        // the cache defect C10 owns (stale qubits after a calibration was redefined), seen here
        // through the derived `==`.  It gets its own exact signature.
        if l2 == listing
            && p2.calibrations == p.calibrations
            && p2.frames == p.frames
            && p2.memory_regions == p.memory_regions
            && p2.waveforms == p.waveforms
            && p2.gate_definitions == p.gate_definitions
            && p2.circuits == p.circuits
            && p2.extern_pragma_map == p.extern_pragma_map
            && p2.get_used_qubits() != p.get_used_qubits()
        {
            // which way is the original's cache wrong?  (mentioned = the library's own get_qubits
            // over the listing)
            let mentioned: std::collections::HashSet<quil_rs::instruction::Qubit> = listing
                .iter()
                .flat_map(|i| i.get_qubits().into_iter().cloned())
                .collect();
            let used = p.get_used_qubits();
            let class = if mentioned.is_subset(used) && p2.get_used_qubits() == &mentioned {
                // the known defect: a replaced calibration's qubits stay in the cache
                "cache-keeps-stale-qubits"
            } else if !mentioned.is_subset(used) {
                "cache-lacks-mentioned-qubits"
            } else {
                "other"
            };
            sig = format!("reparse-differs:only-the-used-qubit-cache-differs:{class}");
            detail["used_qubits"] = json!({
                "original": format!("{:?}", used),
                "reparsed": format!("{:?}", p2.get_used_qubits()),
                "mentioned_by_listing": format!("{:?}", mentioned),
            });
        }
        if listing.len() != l2.len() {
            sig = format!("reparse-differs:instruction-count:{}", if l2.len() > listing.len() { "more" } else { "fewer" });
            detail["counts"] = json!([listing.len(), l2.len()]);
        }
        // Frame definitions are compared as a set (their listing order is C08's business), every
        // other instruction in listing order.
        let is_frame = |i: &&Instruction| matches!(i, Instruction::FrameDefinition(_));
        let (fa, fb): (Vec<&Instruction>, Vec<&Instruction>) =
            (listing.iter().filter(is_frame).collect(), l2.iter().filter(is_frame).collect());
        let (oa, ob): (Vec<&Instruction>, Vec<&Instruction>) = (
            listing.iter().filter(|i| !is_frame(i)).collect(),
            l2.iter().filter(|i| !is_frame(i)).collect(),
        );
        let mut found = false;
        for (a, b) in oa.iter().zip(ob.iter()) {
            if a != b {
                let (s1, d) = describe_difference(a, b);
                sig = format!("reparse-differs:{s1}");
                detail["first_difference"] = d;
                found = true;
                break;
            }
        }
        if !found {
            if let Some(a) = fa.iter().find(|a| !fb.contains(a)) {
                // pair it with the reparsed frame of the same identifier, if any
                let same_id = fb.iter().find(|b| match (a, b) {
                    (Instruction::FrameDefinition(x), Instruction::FrameDefinition(y)) => x.identifier == y.identifier,
                    _ => false,
                });
                match same_id {
                    Some(b) => {
                        let (s1, d) = describe_difference(a, b);
                        sig = format!("reparse-differs:{s1}");
                        detail["first_difference"] = d;
                    }
                    None => {
                        sig = "reparse-differs:FrameDefinition:identifier-missing-after-reparse".into();
                        detail["first_difference"] = json!({"original": clip(&format!("{a:?}"), 500)});
                    }
                }
            }
        }
        ctx.violation(&sig, detail);
        return;
    }
    // 4. second print byte-identical
    match guarded(|| p2.to_quil()) {
        Ok(Ok(s2)) if s2 == s => {
            ctx.count("outcome:round-trip-ok");
        }
        Ok(Ok(s2)) => {
            if only_defframe_permutation(&s, &s2) {
                ctx.count("outcome:second-print-differs-only-by-DEFFRAME-order(attributed-to-C08)");
                ctx.inconclusive("second-print-differs-only-by-DEFFRAME-order(C08)");
            } else {
                let (ia, ib) = (items(&s), items(&s2));
                let first = ia.iter().zip(ib.iter()).find(|(a, b)| a != b);
                let kind = first
                    .map(|(a, _)| a.split_whitespace().next().unwrap_or("?").to_string())
                    .unwrap_or_else(|| "length".into());
                ctx.violation(
                    &format!("second-print-not-identical:{kind}"),
                    json!({"first": clip(&s, 500), "second": clip(&s2, 500)}),
                );
            }
        }
        Ok(Err(e)) => ctx.violation("second-to-quil-error", json!({"error": format!("{e:?}")})),
        Err(pn) => ctx.violation(&format!("second-to-quil-{}", pn.signature()), json!({"panic": pn.to_json()})),
    }
}

const BATTERY: &[&str] = &[
    "MOVE x 1.0", "MOVE x 1e300", "MOVE x -2.5e-7", "MOVE x 1", "MOVE x -1", "ADD x 1.0", "EQ a b 2.0",
    "EQ a b 1e15", "MOVE x 123456789012345680.0", "STORE m x 0.0", "MOVE x 1e15", "MOVE x 1e16",
    "RX(-(-pi)) 0", "RX(-pi) 0", "RX(-(1)) 0", "RX(- 1) 0", "RX(1-(-2)) 0", "RX(-(1+2)) 0", "RX(2^-1) 0",
    "RX(-2^2) 0", "RX((1+2i)*%x) 0", "RX(1+2i) 0", "RX(2i*3) 0", "RX(1e-7) 0", "RX(1e300) 0", "RX(1.0) 0",
    "RX(pi/2) 0", "RX(a[1]*2) 0", "RX(sin(cos(1))) 0", "RX(i) 0", "RX(-i) 0", "RX(1/3) 0", "RX(2*(3+4)) 0",
    "RX((2*3)+4) 0", "RX(2^3^4) 0", "RX((2^3)^4) 0", "RX(1-2-3) 0", "RX(1-(2-3)) 0", "RX(1/2/3) 0",
    "DEFCAL CONTROLLED X 0 1:\n    NOP", "DEFCAL DAGGER RX(%t) q:\n    NOP", "DEFCAL FORKED RX(1, 2) 0 1:\n    NOP",
    "DELAY 0 \"a\\\"b\" 1.0", "DELAY 0 \"a\\\\b\" 1.0", "DELAY 0 1 \"x\" \"y\" 2", "DELAY 0 1", "DELAY 5",
    "DELAY 0 1.5", "DELAY q 1.0", "DELAY 0 %t", "DELAY 0 (%t)", "DELAY 0 x[1]",
    "PRAGMA a b 1 \"c \\\" d\"", "INCLUDE \"f \\\\ g\"", "DEFFRAME 0 \"a\\\"b\":\n    K: \"v\\\\w\"",
    "PULSE 0 \"f\" w", "PULSE 0 \"f\" w()", "PULSE 0 1 \"f\" a/b(x: 1, y: 2i)", "NONBLOCKING PULSE 0 \"f\" w",
    "CAPTURE 0 \"f\" w ro", "NONBLOCKING CAPTURE 0 \"f\" w(a: 1) ro[1]", "RAW-CAPTURE 0 \"f\" 1e-6 ro",
    "NONBLOCKING RAW-CAPTURE 0 \"f\" 2 ro[2]", "FENCE", "FENCE 0 1", "RESET", "RESET 0", "RESET q",
    "MEASURE 0", "MEASURE 0 ro", "MEASURE q ro[1]", "MEASURE!m 0 ro", "MEASURE!m 0",
    "DEFCAL MEASURE 0 addr:\n    NOP", "DEFCAL MEASURE q:\n    NOP", "DEFCAL MEASURE!m 0 addr:\n    NOP",
    "CALL f", "CALL f x", "CALL f x[1]", "CALL f 1", "CALL f 1.5", "CALL f 2i", "CALL f 1 2.0 x y[0]",
    "DECLARE a BIT", "DECLARE a REAL[3] SHARING b", "DECLARE a OCTET[2] SHARING b OFFSET 1 BIT 2 REAL",
    "DEFGATE G:\n    1, 0\n    0, 1", "DEFGATE G(%a, %b) AS MATRIX:\n    cos(%a), 0\n    0, sin(%b)*i",
    "DEFGATE G AS PERMUTATION:\n    1, 0", "DEFGATE G(%t) p q AS PAULI-SUM:\n    XZ(%t/2) p q\n    Y(-1.0) q",
    "DEFGATE G(%t) p q AS SEQUENCE:\n    RX(%t) p\n    CONTROLLED DAGGER H q p",
    "DEFCIRCUIT C(%a) q r:\n    RX(%a) q\n    CNOT q r\n    MEASURE q ro", "DEFCIRCUIT C:\n    X 0",
    "DEFWAVEFORM w:\n    1, 2i, 1+2i", "DEFWAVEFORM a/b(%x):\n    %x, -%x, 1e-3",
    "DEFFRAME 0 1 \"f\":\n    SAMPLE-RATE: 1e9\n    DIRECTION: \"tx\"\n    INITIAL-FREQUENCY: 4.5e9",
    "SET-FREQUENCY 0 \"f\" 5e9", "SET-PHASE 0 \"f\" pi/2", "SET-SCALE 0 \"f\" 0.5", "SHIFT-FREQUENCY 0 \"f\" -1e6",
    "SHIFT-PHASE 0 \"f\" x[0]", "SWAP-PHASES 0 \"f\" 1 \"g\"", "LABEL @a", "JUMP @a", "JUMP-WHEN @a ro", "JUMP-UNLESS @a ro[1]",
    "HALT", "WAIT", "NOP", "NEG a", "NOT a[1]", "AND a 1", "IOR a b", "XOR a -1", "SHL a 2", "SHR a b[1]", "ASHR a 63",
    "CONVERT a b", "EXCHANGE a b[1]", "LOAD a b c", "STORE a b c", "STORE a b 1", "STORE a b -1.5",
    "SUB a 1", "MUL a b", "DIV a 2.0", "GT a b c", "GE a b 1", "LE a b -1.0", "LT a b c[1]",
    "PRAGMA EXTERN f \"INTEGER (a : INTEGER)\"", "PRAGMA EXTERN g \"(a : mut REAL[3])\"", "PRAGMA p", "PRAGMA p \"d\"",
    "DEFCAL X 0:\n    FENCE 5\nDEFCAL X 0:\n    FENCE 6", "X %LT", "CNOT %BIT %DAGGER", "DEFCIRCUIT C %HALT:\n    X %HALT",
    "DAGGER CONTROLLED FORKED RX(1, 2) 0 1 2", "X q", "X %q", "CPHASE(pi) 0 1", "XY(1.5) 0 1", "I 0",
    "DEFFRAME 0 \"a\":\n    K: 1\nDEFFRAME 1 \"b\":\n    K: 2\nDEFFRAME 2 \"c\":\n    K: 3\nDEFFRAME 3 \"d\":\n    K: 4",
];

fn redefinition_program(rng: &mut crate::core::Rng) -> String {
    const HEADERS: &[&str] = &[
        "DEFCAL X 0", "DEFCAL RX(%t) q", "DEFCAL CZ 0 1", "DEFCAL MEASURE 0 addr", "DEFCAL MEASURE q",
        "DEFCIRCUIT C q", "DEFCAL DAGGER X 0", "DEFCAL RX(pi/2) 0",
    ];
    const BODY: &[&str] = &[
        "Y 1", "Y 2", "X 1", "Z 3", "FENCE 3", "FENCE 1 2", "DELAY 4 1.0", "NOP", "PULSE 2 \"rf\" w",
        "SHIFT-PHASE 1 \"rf\" 0.5", "CNOT 1 2", "MEASURE 2 ro", "RESET 3", "H 5", "CAPTURE 4 \"ro\" k ro[0]",
    ];
    const OTHER: &[&str] = &[
        "DEFFRAME 0 \"rf\":\n    SAMPLE-RATE: 1.0", "DEFFRAME 0 \"rf\":\n    DIRECTION: \"tx\"", "DECLARE ro BIT[2]",
        "DECLARE ro REAL[1]", "DEFWAVEFORM w:\n    1, 2", "DEFWAVEFORM w:\n    3", "DEFGATE G:\n    1, 0\n    0, 1",
        "DEFGATE G AS PERMUTATION:\n    1, 0", "PRAGMA EXTERN f \"INTEGER\"", "PRAGMA EXTERN f \"REAL (a : REAL)\"",
    ];
    let mut out = String::new();
    let header = *rng.pick(HEADERS);
    let copies = 2 + rng.below(2);
    let mut remaining = copies;
    let total = copies + rng.below(5);
    for k in 0..total {
        let put_def = remaining > 0 && (rng.chance(1, 2) || total - k <= remaining);
        if put_def {
            remaining -= 1;
            out.push_str(header);
            out.push(':');
            for _ in 0..1 + rng.below(2) {
                out.push_str("\n    ");
                out.push_str(*rng.pick(BODY));
            }
            out.push('\n');
        } else if rng.chance(1, 4) {
            out.push_str(*rng.pick(OTHER));
            out.push('\n');
        } else {
            out.push_str(*rng.pick(BODY));
            out.push('\n');
        }
    }
    out
}

fn run(ctx: &mut Ctx) {
    let tier = ctx.tier;
    let mut idx = 0u64;
    for t in BATTERY {
        idx += 1;
        if ctx.mine(idx) {
            check_text(ctx, t, "workload:battery");
        }
        // each battery item also inside calibration and circuit bodies where that is grammatical
        if !t.starts_with("DEF") && !t.contains('\n') {
            for wrapper in ["DEFCAL X 0:\n    {}", "DEFCIRCUIT C q:\n    {}\n    X q", "DEFCAL MEASURE 0 addr:\n    {}"] {
                idx += 1;
                if ctx.mine(idx) {
                    check_text(ctx, &wrapper.replace("{}", t), "workload:battery-in-block");
                }
            }
        }
        if ctx.done() {
            return;
        }
    }
    // programs that define the same keyed definition several times, interleaved with body
    // instructions over a small qubit set (the grammar generator almost never repeats a key)
    let mut rrng = ctx.rng(2);
    let n_redef = ctx.share(tier.pick(60_000, 600_000));
    for _ in 0..n_redef {
        let text = redefinition_program(&mut rrng);
        check_text(ctx, &text, "workload:redefinitions");
        if ctx.done() {
            return;
        }
    }
    let mut rng = ctx.rng(1);
    let n = ctx.share(tier.pick(400_000, 4_000_000));
    for k in 0..n {
        let text = {
            let mut g = TextGen::new(&mut rng);
            g.layout_noise = k % 3 == 0;
            g.program(5)
        };
        if k % 4 == 3 {
            let m = if rng.chance(1, 2) { mutate_bytes(&mut rng, &text) } else { mutate_tokens(&mut rng, &text) };
            check_text(ctx, &m, "workload:mutant");
        } else {
            check_text(ctx, &text, "workload:grammar");
        }
        if ctx.done() {
            return;
        }
    }
    if ctx.shard == 0 {
        ctx.sample("battery", json!(BATTERY[0]));
        let mut r = ctx.global_rng(5);
        let mut g = TextGen::new(&mut r);
        ctx.sample("grammar", json!(clip(&g.program(4), 400)));
    }
}
