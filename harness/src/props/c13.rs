//! C13 — substitution, evaluation and memory-reference listing agree.
//!
//! For every generated tree `e`, with V = its variables and M = its memory references (found by
//! the harness's own tree walk):
//!  (ii)  `e.memory_references()` lists exactly the addresses in M (set equality is asserted; the
//!        multiset / left-to-right order agreement is recorded as coverage only, the statement does
//!        not promise it);
//!  (iii) for every *partial assignment* P (each variable bound or not; each memory region absent
//!        or supplied with a vector of length 0..=max index+1): `e.evaluate(P)` is `Ok` iff P binds
//!        every variable of V and every `name[i]` in M has `i < len(P[name])`;
//!  (i)   for every P and every subset T of the variables bound by P:
//!        `e.substitute_variables(T -> Number(P[T])).evaluate(P \ T)` is the same result as
//!        `e.evaluate(P)` (same value with NaN = NaN, or both errors).
//! Partial assignments are enumerated completely when there are at most 200 (P, T) pairs and
//! sampled (200 pairs, always including the full and the empty assignment) beyond that.

use crate::core::{guarded, hash_of, Ctx, Rng};
use crate::gen::expr_gen::{leaves_c12, random_tree, Depth2, LeafProfile, Tree};
use crate::model::expr_eval::{generic_env, same_value, Env, C};
use crate::props::{PropInfo, DEFAULT};
use quil_rs::expression::{EvaluationError, Expression};
use quil_rs::quil::Quil;
use serde_json::{json, Value};
use std::collections::HashMap;

pub static INFO: PropInfo = PropInfo {
    id: "C13",
    run,
    rule: "inputs: the trees of C12 - (a) every expression tree of depth <= 2 over {0, 1, -1, 2, 0.5, 2i, pi, %x, %y, m[0]} (1.69 M trees, enumerated completely in both tiers), (b) random trees up to depth 6 over dyadic literals, pi, 4 variables and 5 memory cells in 4 regions, (c) random trees up to depth 5 whose variable names and region names are drawn from one shared pool {x, theta, m, q_1} with indices folded to 0..2, so that %theta, theta[0] and theta[2] meet in one expression - each with all its partial assignments (every variable bound/unbound x every region absent or of length 0..=max index+1) x every subset of bound variables substituted instead of bound; complete when <= 200 combinations, otherwise 200 sampled ones incl. the full and the empty assignment. While a substitution runs, another live expression holds the mirror image of the substituted tree (operands of every infix node swapped): expressions are interned process-wide and the neighbours must not matter. Every substitution map additionally binds each region name of the expression that is not one of its variables (decoy keys: a region is not a variable whatever it is called). distinct = distinct tree; non-trivial = the tree has at least one free name (variable or memory reference).",
    assumptions: &[
        "memory_references() is compared as a set with the tree walk (multiset/order agreement is recorded, not asserted)",
        "only Ok-vs-Err of evaluate is asserted for incomplete assignments, not which EvaluationError is returned",
    ],
    exhaustive_quick: false,
    exhaustive_thorough: false,
    exhaustive_note: "sub-space (a) (all trees of depth <= 2 over the 10-leaf alphabet, each with all its partial assignments) is enumerated completely; (b) and (c) are sampled",
    crash_is_violation: false,
    min_nontrivial: 100_000,
    required_counters: &[
        "workload:depth2-exhaustive",
        "workload:random-depth6",
        "workload:colliding-names",
        "substitute:decoy-key-named-like-a-region",
        "substitute:with-live-mirror-image-neighbour",
        "evaluate:ok-as-expected",
        "evaluate:incomplete-as-expected:variable-unbound",
        "evaluate:incomplete-as-expected:region-absent",
        "evaluate:incomplete-as-expected:index-out-of-range",
        "substitute:same-value",
        "substitute:both-incomplete",
        "substitute:partial-subset",
        "memrefs:set-equal:nonempty",
        "memrefs:set-equal:repeated-reference",
        "assignments:enumerated-completely",
        "assignments:sampled",
    ],
    watchdog_s: 120,
    ..DEFAULT
};

const MAX_COMBOS: usize = 200;

fn c_json(v: C) -> Value {
    json!([v.re, v.im])
}

fn result_json(r: &Result<C, EvaluationError>) -> Value {
    match r {
        Ok(v) => c_json(*v),
        Err(e) => json!(format!("Err({e:?})")),
    }
}

/// One partial assignment: which variables are bound, which length each region has (None = absent).
#[derive(Clone, Debug)]
struct Partial {
    bound: Vec<bool>,
    lens: Vec<Option<usize>>,
}

fn check_tree(ctx: &mut Ctx, tree: &Tree, env: &Env, workload: &str) {
    let desc = tree.describe();
    if !ctx.begin(&desc) {
        return;
    }
    ctx.count(workload);
    let expr = tree.to_expression();
    let vars = tree.variable_set();
    let cells = tree.memory_ref_set();
    let mut regions: Vec<(String, u64)> = Vec::new(); // (name, max index)
    for (n, i) in &cells {
        match regions.iter_mut().find(|(r, _)| r == n) {
            Some((_, m)) => *m = (*m).max(*i),
            None => regions.push((n.clone(), *i)),
        }
    }
    if !vars.is_empty() || !cells.is_empty() {
        ctx.nontrivial(&desc);
    }
    ctx.max("free-names", (vars.len() + cells.len()) as u64);

    // (ii) memory references
    let mut walk: Vec<(&str, u64)> = Vec::new();
    tree.memory_refs_into(&mut walk);
    match guarded(|| expr.memory_references().map(|m| (m.name.clone(), m.index)).collect::<Vec<_>>()) {
        Err(p) => ctx.violation(&p.signature(), json!({"tree": desc, "stage": "memory_references", "panic": p.to_json()})),
        Ok(listed) => {
            let mut set: Vec<(String, u64)> = listed.clone();
            set.sort();
            set.dedup();
            if set != cells {
                let missing: Vec<_> = cells.iter().filter(|c| !set.contains(c)).collect();
                let extra: Vec<_> = set.iter().filter(|c| !cells.contains(c)).collect();
                let sig = if !missing.is_empty() && extra.is_empty() {
                    "memory_references-misses-an-occurring-address"
                } else if missing.is_empty() {
                    "memory_references-lists-an-address-that-does-not-occur"
                } else {
                    "memory_references-differs-from-occurring-addresses"
                };
                ctx.violation(sig, json!({"tree": desc, "quil": expr.to_quil_or_debug(), "listed": listed, "occurring": cells, "missing": missing, "extra": extra}));
            } else {
                if cells.is_empty() {
                    ctx.count("memrefs:set-equal:empty");
                } else {
                    ctx.count("memrefs:set-equal:nonempty");
                }
                if walk.len() > cells.len() {
                    ctx.count("memrefs:set-equal:repeated-reference");
                }
                let same_seq = listed.len() == walk.len() && listed.iter().zip(&walk).all(|(a, b)| a.0 == b.0 && a.1 == b.1);
                let mut ms_a: Vec<(String, u64)> = listed.clone();
                ms_a.sort();
                let mut ms_b: Vec<(String, u64)> = walk.iter().map(|(n, i)| (n.to_string(), *i)).collect();
                ms_b.sort();
                if same_seq {
                    ctx.count("memrefs:same-order-and-multiplicity");
                } else if ms_a == ms_b {
                    ctx.count("memrefs:same-multiplicity-other-order");
                } else {
                    ctx.count("memrefs:other-multiplicity");
                }
            }
        }
    }

    let has_infix = tree_has_infix(tree);
    // enumerate partial assignments x substituted subsets
    let nv = vars.len();
    let region_choices: Vec<usize> = regions.iter().map(|(_, m)| *m as usize + 3).collect(); // absent, 0..=m+1
    let mut n_partials: usize = 1usize << nv;
    for c in &region_choices {
        n_partials = n_partials.saturating_mul(*c);
    }
    // number of (P, T) pairs = prod over variables of 3 (unbound, bound, substituted) x region choices
    let mut n_pairs: usize = 3usize.saturating_pow(nv as u32);
    for c in &region_choices {
        n_pairs = n_pairs.saturating_mul(*c);
    }
    let _ = n_partials;
    // a combination is a vector of per-variable states (0 unbound, 1 bound, 2 substituted) + region choices
    let decode = |mut code: usize| -> (Vec<u8>, Vec<Option<usize>>) {
        let mut st = Vec::with_capacity(nv);
        for _ in 0..nv {
            st.push((code % 3) as u8);
            code /= 3;
        }
        let mut lens = Vec::with_capacity(region_choices.len());
        for c in &region_choices {
            let k = code % c;
            code /= c;
            lens.push(if k == 0 { None } else { Some(k - 1) });
        }
        (st, lens)
    };
    let codes: Vec<usize> = if n_pairs <= MAX_COMBOS {
        ctx.count("assignments:enumerated-completely");
        (0..n_pairs).collect()
    } else {
        ctx.count("assignments:sampled");
        let mut r = Rng::from_parts(&[hash_of(&desc), 0xC13]);
        let mut v: Vec<usize> = (0..MAX_COMBOS - 2).map(|_| (r.next() % n_pairs as u64) as usize).collect();
        // full assignment (every variable bound, every region long enough) and empty assignment
        let mut full = 0usize;
        let mut mult = 1usize;
        for _ in 0..nv {
            full += mult; // state 1 = bound
            mult *= 3;
        }
        for c in &region_choices {
            full += mult * (c - 1);
            mult *= c;
        }
        v.push(full);
        v.push(0);
        v
    };

    for code in codes {
        let (states, lens) = decode(code);
        let part = Partial {
            bound: states.iter().map(|s| *s != 0).collect(),
            lens: lens.clone(),
        };
        // model: is everything supplied?
        let all_vars = part.bound.iter().all(|b| *b);
        let mut missing_region = false;
        let mut short_region = false;
        for (n, i) in &cells {
            let k = regions.iter().position(|(r, _)| r == n).unwrap_or(0);
            match part.lens[k] {
                None => missing_region = true,
                Some(len) => {
                    if (*i as usize) >= len {
                        short_region = true;
                    }
                }
            }
        }
        let expected_ok = all_vars && !missing_region && !short_region;

        // the environment of the direct evaluation binds bound *and* substituted variables
        let mut direct_vars: HashMap<String, C> = HashMap::new();
        let mut sub_vars: HashMap<String, C> = HashMap::new();
        let mut subst: HashMap<String, Expression> = HashMap::new();
        let mut subst_values: HashMap<String, C> = HashMap::new();
        for (k, v) in vars.iter().enumerate() {
            let val = env.var(v).unwrap_or(C::new(0.77 + (hash_of(v) % 16) as f64 / 32.0, 0.0));
            match states[k] {
                1 => {
                    direct_vars.insert(v.clone(), val);
                    sub_vars.insert(v.clone(), val);
                }
                2 => {
                    direct_vars.insert(v.clone(), val);
                    subst.insert(v.clone(), Expression::Number(val));
                    subst_values.insert(v.clone(), val);
                }
                _ => {}
            }
        }
        // decoys: the substitution map also binds every *region* name that is not one of the
        // expression's variables; a variable that does not occur substitutes nothing, and a
        // memory region is not a variable whatever it is called.
        if !subst.is_empty() {
            for (n, _) in &regions {
                if !vars.contains(n) {
                    subst.insert(n.clone(), Expression::Number(C::new(-41.5, 3.25)));
                    ctx.count("substitute:decoy-key-named-like-a-region");
                }
            }
        }
        let mut mem: HashMap<String, Vec<f64>> = HashMap::new();
        for (k, (n, _)) in regions.iter().enumerate() {
            if let Some(len) = part.lens[k] {
                let full: Vec<f64> = (0..len).map(|j| env.cell(n, j as u64).unwrap_or(0.9 + 0.1 * j as f64 + (hash_of(n) % 8) as f64 / 64.0)).collect();
                mem.insert(n.clone(), full);
            }
        }

        let direct = match guarded(|| expr.evaluate(&direct_vars, &mem)) {
            Err(p) => {
                ctx.violation(&p.signature(), json!({"tree": desc, "stage": "evaluate", "panic": p.to_json()}));
                continue;
            }
            Ok(r) => r,
        };
        // (iii)
        match (&direct, expected_ok) {
            (Ok(_), true) => ctx.count("evaluate:ok-as-expected"),
            (Err(e), false) => {
                let why = if !all_vars {
                    "variable-unbound"
                } else if missing_region {
                    "region-absent"
                } else {
                    "index-out-of-range"
                };
                ctx.count(&format!("evaluate:incomplete-as-expected:{why}"));
                ctx.count(&format!("evaluate:error-kind:{e:?}"));
            }
            (Ok(v), false) => {
                let why = if !all_vars {
                    "a-variable-is-unbound"
                } else if missing_region {
                    "a-memory-region-is-absent"
                } else {
                    "a-memory-index-is-out-of-range"
                };
                ctx.violation(
                    &format!("evaluate-succeeds-although-{why}"),
                    json!({"tree": desc, "quil": expr.to_quil_or_debug(), "bound_variables": direct_vars.keys().collect::<Vec<_>>(),
                           "memory": mem, "needs_variables": vars, "needs_cells": cells, "returned": c_json(*v)}),
                );
            }
            (Err(e), true) => {
                ctx.violation(
                    "evaluate-fails-although-everything-is-supplied",
                    json!({"tree": desc, "quil": expr.to_quil_or_debug(), "error": format!("{e:?}"), "memory": mem,
                           "bound_variables": direct_vars.keys().collect::<Vec<_>>()}),
                );
            }
        }
        // (i)
        if states.iter().any(|s| *s == 2) {
            // Hostile neighbour: expressions are interned in a process-wide table, so while the
            // substitution runs another live expression holds the *mirror image* of the
            // substituted tree (same leaves, operands of every infix node swapped).  What else
            // is alive in the process must not influence the result.
            let _neighbour = if has_infix {
                ctx.count("substitute:with-live-mirror-image-neighbour");
                Some(mirror_substituted(tree, &subst_values).to_expression())
            } else {
                None
            };
            let via = guarded(|| {
                let s = expr.substitute_variables(&subst);
                let r = s.evaluate(&sub_vars, &mem);
                (s, r)
            });
            match via {
                Err(p) => ctx.violation(&p.signature(), json!({"tree": desc, "stage": "substitute_variables+evaluate", "panic": p.to_json()})),
                Ok((s, r)) => {
                    let same = match (&direct, &r) {
                        (Ok(a), Ok(b)) => same_value(*a, *b),
                        (Err(_), Err(_)) => true,
                        _ => false,
                    };
                    if same {
                        ctx.count(if direct.is_ok() { "substitute:same-value" } else { "substitute:both-incomplete" });
                        if states.iter().any(|s| *s == 1) {
                            ctx.count("substitute:partial-subset");
                        }
                    } else {
                        let class = match (&direct, &r) {
                            (Ok(_), Ok(_)) => "different-value",
                            (Ok(_), Err(_)) => "substituted-form-not-evaluable",
                            _ => "substituted-form-evaluable-but-bound-form-not",
                        };
                        ctx.violation(
                            &format!("substitute-then-evaluate-disagrees-with-evaluate:{class}"),
                            json!({"tree": desc, "quil": expr.to_quil_or_debug(), "substituted": subst.keys().collect::<Vec<_>>(),
                                   "substituted_expression": s.to_quil_or_debug(), "bound": sub_vars.keys().collect::<Vec<_>>(), "memory": mem,
                                   "evaluate": result_json(&direct), "substitute_then_evaluate": result_json(&r)}),
                        );
                    }
                }
            }
        }
    }
    if ctx.case_no() % 60_000 == 1 && !vars.is_empty() {
        ctx.sample(workload, json!({"tree": desc, "variables": vars, "memory_references": cells, "combinations": n_pairs}));
    }
}

fn run(ctx: &mut Ctx) {
    let tier = ctx.tier;
    let env = generic_env(1); // complex variable values, real memory

    // (a) exhaustive depth <= 2
    let space = Depth2::new(&leaves_c12());
    ctx.count_n("depth2-space-size", if ctx.shard == 0 { space.count() } else { 0 });
    for idx in 0..space.index_space() {
        if !ctx.mine(idx) {
            continue;
        }
        let Some(tree) = space.get(idx) else { continue };
        check_tree(ctx, &tree, &env, "workload:depth2-exhaustive");
        if ctx.done() {
            return;
        }
    }

    // (b) random depth <= 6
    let mut rng = ctx.rng(13);
    let n = ctx.share(tier.pick(60_000, 6_000_000));
    for _ in 0..n {
        let depth = 1 + rng.below(6);
        let tree = random_tree(&mut rng, depth, LeafProfile::Dyadic);
        check_tree(ctx, &tree, &env, "workload:random-depth6");
        if ctx.done() {
            return;
        }
    }
    // (c) random trees whose variable names and memory-region names are drawn from one shared
    // pool, so that `%theta`, `theta[0]` and `theta[3]` meet in one expression: variables and
    // regions are separate name spaces for substitution, evaluation and reference listing.
    let mut rng = ctx.rng(14);
    let n = ctx.share(tier.pick(60_000, 4_000_000));
    for _ in 0..n {
        let depth = 1 + rng.below(5);
        let tree = random_tree(&mut rng, depth, LeafProfile::Dyadic);
        let tree = collide_names(&mut rng, &tree);
        check_tree(ctx, &tree, &env, "workload:colliding-names");
        if ctx.done() {
            return;
        }
    }
}

fn tree_has_infix(t: &Tree) -> bool {
    match t {
        Tree::Inf(..) => true,
        Tree::Fun(_, a) | Tree::Pre(_, a) => tree_has_infix(a),
        _ => false,
    }
}

/// `t` with the variables in `values` replaced by their numbers and the operands of every infix
/// node swapped.
fn mirror_substituted(t: &Tree, values: &HashMap<String, C>) -> Tree {
    match t {
        Tree::Var(n) => match values.get(n) {
            Some(v) => Tree::Num(v.re, v.im),
            None => t.clone(),
        },
        Tree::Fun(f, a) => Tree::Fun(*f, Box::new(mirror_substituted(a, values))),
        Tree::Pre(o, a) => Tree::Pre(*o, Box::new(mirror_substituted(a, values))),
        Tree::Inf(l, o, r) => Tree::Inf(Box::new(mirror_substituted(r, values)), *o, Box::new(mirror_substituted(l, values))),
        other => other.clone(),
    }
}

fn collide_names(rng: &mut Rng, tree: &Tree) -> Tree {
    const SHARED: [&str; 4] = ["x", "theta", "m", "q_1"];
    let mut map: HashMap<String, String> = HashMap::new();
    let zero_index = rng.chance(1, 2);
    let mut pick = |rng: &mut Rng, kind: &str, n: &str| -> String {
        map.entry(format!("{kind}:{n}")).or_insert_with(|| SHARED[rng.below(SHARED.len())].to_string()).clone()
    };
    fn go(t: &Tree, rng: &mut Rng, pick: &mut dyn FnMut(&mut Rng, &str, &str) -> String, zero_index: bool) -> Tree {
        match t {
            Tree::Var(n) => Tree::Var(pick(rng, "v", n)),
            Tree::Mem(n, i) => Tree::Mem(pick(rng, "m", n), if zero_index { 0 } else { *i % 3 }),
            Tree::Fun(f, a) => Tree::Fun(*f, Box::new(go(a, rng, pick, zero_index))),
            Tree::Pre(o, a) => Tree::Pre(*o, Box::new(go(a, rng, pick, zero_index))),
            Tree::Inf(l, o, r) => {
                let l = go(l, rng, pick, zero_index);
                let r = go(r, rng, pick, zero_index);
                Tree::Inf(Box::new(l), *o, Box::new(r))
            }
            other => other.clone(),
        }
    }
    go(tree, rng, &mut pick, zero_index)
}
