//! C29 — gate depth equals the longest chain of qualifying gates.
//!
//! Each block of gates, measurements and classical instructions is built as a single-block
//! `Program`; `QubitGraph::try_from_basic_block(..).gate_depth(k)` is observed for every threshold
//! k in 0..=5 and compared with the longest-chain DP of `model::analysis_depth`.
//!
//! Gates with a repeated qubit are never generated (not valid Quil; they would put a self-loop
//! into the qubit graph on which path enumeration does not terminate — outside the property).

use crate::core::{guarded, Ctx, Rng};
use crate::gen::analysis_ast::{addr, gate, mref, num, q};
use crate::model::analysis_depth::{gate_depth, has_two_gates_sharing_a_qubit, Op};
use crate::props::{PropInfo, DEFAULT};
use quil_rs::instruction::{
    Arithmetic, ArithmeticOperand, ArithmeticOperator, DefaultHandler, GateModifier, Instruction,
    Measurement, Move,
};
use quil_rs::program::analysis::{ControlFlowGraph, QubitGraph};
use quil_rs::Program;
use serde_json::json;

pub static INFO: PropInfo = PropInfo {
    id: "C29",
    run,
    rule: "cases: (a) every sequence of length 1..=5 (thorough: 1..=6) over 14 instructions on 4 qubits {X q (q=0..3), CNOT 0 1, CNOT 1 2, CNOT 2 3, CNOT 3 0, CCNOT 0 1 2, CCNOT 1 2 3, G4 0 1 2 3, MEASURE 0 ro[0], MEASURE 2, MOVE ro[0] 1}, enumerated completely and sharded by index, each judged for every threshold k in 0..=5; (b) random blocks of 6..=10 instructions on 5 qubits (gates on 1..4 distinct qubits in random order, with parameters and modifiers, measurements with and without target, MOVE/ADD, NOP). distinct = distinct block text; non-trivial = the block contains two gates that share a qubit.",
    assumptions: &[
        "gates with a repeated qubit are excluded (not valid Quil; self-loop in the qubit graph)",
        "random blocks are capped at 10 instructions because path enumeration in the implementation is exponential",
    ],
    exhaustive_quick: false,
    exhaustive_thorough: false,
    exhaustive_note: "sub-space (a) — all sequences of length <= 5 (quick) / <= 6 (thorough) over the 14-instruction alphabet x thresholds 0..=5 — is enumerated completely; (b) is sampled",
    min_nontrivial: 1000,
    required_counters: &["workload:exhaustive", "workload:random", "depth>=3", "threshold-sensitive"],
    watchdog_s: 120,
    ..DEFAULT
};

const THRESHOLDS: std::ops::RangeInclusive<usize> = 0..=5;

/// (text, qubits, is_gate, builder index)
const ALPHABET: [(&str, &[u64], bool); 14] = [
    ("X 0", &[0], true),
    ("X 1", &[1], true),
    ("X 2", &[2], true),
    ("X 3", &[3], true),
    ("CNOT 0 1", &[0, 1], true),
    ("CNOT 1 2", &[1, 2], true),
    ("CNOT 2 3", &[2, 3], true),
    ("CNOT 3 0", &[3, 0], true),
    ("CCNOT 0 1 2", &[0, 1, 2], true),
    ("CCNOT 1 2 3", &[1, 2, 3], true),
    ("G4 0 1 2 3", &[0, 1, 2, 3], true),
    ("MEASURE 0 ro[0]", &[0], false),
    ("MEASURE 2", &[2], false),
    ("MOVE ro[0] 1", &[], false),
];

fn alphabet_instruction(t: usize) -> Instruction {
    let (text, qubits, is_gate) = ALPHABET[t];
    if is_gate {
        let name = text.split(' ').next().unwrap_or("X");
        return gate(name, vec![], qubits, vec![]);
    }
    match t {
        11 => Instruction::Measurement(Measurement {
            name: None,
            qubit: q(0),
            target: Some(mref("ro", 0)),
        }),
        12 => Instruction::Measurement(Measurement {
            name: None,
            qubit: q(2),
            target: None,
        }),
        _ => Instruction::Move(Move {
            destination: mref("ro", 0),
            source: ArithmeticOperand::LiteralInteger(1),
        }),
    }
}

enum Observed {
    /// depths for thresholds 0..=5
    Depths(Vec<usize>),
    NotOneBlock(usize),
    GraphError(String),
}

fn observe(instructions: &[Instruction]) -> Observed {
    let program = Program::from_instructions(instructions.to_vec());
    let blocks = ControlFlowGraph::from(&program).into_blocks();
    if blocks.len() != 1 {
        return Observed::NotOneBlock(blocks.len());
    }
    match QubitGraph::try_from_basic_block(&blocks[0], &DefaultHandler) {
        Err(e) => Observed::GraphError(format!("{e}")),
        Ok(graph) => Observed::Depths(THRESHOLDS.map(|k| graph.gate_depth(k)).collect()),
    }
}

fn judge(ctx: &mut Ctx, text: &str, instructions: &[Instruction], ops: &[Op]) {
    let expected: Vec<usize> = THRESHOLDS.map(|k| gate_depth(ops, k)).collect();
    if has_two_gates_sharing_a_qubit(ops) {
        ctx.nontrivial(text);
        ctx.count("nontrivial:two-gates-share-a-qubit");
    }
    ctx.count(&format!("length:{}", ops.len()));
    ctx.max("expected-depth", expected[0] as u64);
    ctx.count(&format!("expected-depth(k=1):{}", expected[1].min(8)));
    ctx.count(&format!("expected-depth(k=2):{}", expected[2].min(8)));
    if expected[0] >= 3 {
        ctx.count("depth>=3");
    }
    if expected.windows(2).any(|w| w[0] != w[1]) {
        ctx.count("threshold-sensitive");
    }
    match guarded(|| observe(instructions)) {
        Err(p) => ctx.violation(&p.signature(), json!({"panic": p.to_json()})),
        Ok(Observed::NotOneBlock(n)) => {
            // block formation is C28's business; without exactly one block there is nothing to judge
            ctx.inconclusive(&format!("program-has-{n}-blocks"));
        }
        Ok(Observed::GraphError(e)) => {
            ctx.violation("qubit-graph-rejects-gate/measure/classical-block", json!({"error": e}));
        }
        Ok(Observed::Depths(got)) => {
            ctx.count("outcome:depths-observed");
            if got != expected {
                let k = (0..got.len()).find(|&k| got[k] != expected[k]).unwrap_or(0);
                let dir = if got[k] > expected[k] { "larger" } else { "smaller" };
                ctx.violation(
                    &format!("gate-depth-mismatch:implementation-{dir}-than-longest-chain"),
                    json!({"thresholds": "0..=5", "expected": expected, "observed": got, "first_differing_threshold": k}),
                );
            }
        }
    }
}

fn random_block(rng: &mut Rng) -> (String, Vec<Instruction>, Vec<Op>) {
    let n = 6 + rng.below(5);
    let mut text = Vec::new();
    let mut instructions = Vec::new();
    let mut ops = Vec::new();
    for _ in 0..n {
        match rng.below(12) {
            0..=7 => {
                // gate on 1..=4 distinct qubits out of 5, random order
                let arity = match rng.below(10) {
                    0..=3 => 1,
                    4..=7 => 2,
                    8 => 3,
                    _ => 4,
                };
                let mut all = [0u64, 1, 2, 3, 4];
                rng.shuffle(&mut all);
                let qubits = all[..arity].to_vec();
                let (name, params, ptxt) = if rng.chance(1, 4) {
                    if rng.chance(1, 2) {
                        ("RX", vec![num(0.5)], "(0.5)")
                    } else {
                        ("RZ", vec![addr("theta", 0)], "(theta[0])")
                    }
                } else {
                    let names: &[&str] = match arity {
                        1 => &["X", "H", "Foo"],
                        2 => &["CZ", "SWAP", "CNOT"],
                        3 => &["CCNOT", "CSWAP"],
                        _ => &["G4"],
                    };
                    (*rng.pick(names), vec![], "")
                };
                let (modifiers, mtxt) = match rng.below(8) {
                    0 => (vec![GateModifier::Dagger], "DAGGER "),
                    1 => (vec![GateModifier::Controlled], "CONTROLLED "),
                    _ => (vec![], ""),
                };
                text.push(format!(
                    "{mtxt}{name}{ptxt} {}",
                    qubits.iter().map(|q| q.to_string()).collect::<Vec<_>>().join(" ")
                ));
                instructions.push(gate(name, params, &qubits, modifiers));
                ops.push(Op { qubits, is_gate: true });
            }
            8..=9 => {
                let qubit = rng.below(5) as u64;
                let target = if rng.chance(1, 2) { Some(mref("ro", qubit)) } else { None };
                text.push(match &target {
                    Some(t) => format!("MEASURE {qubit} ro[{}]", t.index),
                    None => format!("MEASURE {qubit}"),
                });
                instructions.push(Instruction::Measurement(Measurement {
                    name: None,
                    qubit: q(qubit),
                    target,
                }));
                ops.push(Op { qubits: vec![qubit], is_gate: false });
            }
            10 => {
                if rng.chance(1, 2) {
                    text.push("MOVE ro[0] 1".into());
                    instructions.push(Instruction::Move(Move {
                        destination: mref("ro", 0),
                        source: ArithmeticOperand::LiteralInteger(1),
                    }));
                } else {
                    text.push("ADD n[0] 2".into());
                    instructions.push(Instruction::Arithmetic(Arithmetic {
                        operator: ArithmeticOperator::Add,
                        destination: mref("n", 0),
                        source: ArithmeticOperand::LiteralInteger(2),
                    }));
                }
                ops.push(Op { qubits: vec![], is_gate: false });
            }
            _ => {
                text.push("NOP".into());
                instructions.push(Instruction::Nop());
                ops.push(Op { qubits: vec![], is_gate: false });
            }
        }
    }
    (text.join("; "), instructions, ops)
}

fn run(ctx: &mut Ctx) {
    // (a) exhaustive
    let max_len = ctx.tier.pick(5, 6);
    let n = ALPHABET.len() as u64;
    let mut idx = 0u64;
    for len in 1..=max_len {
        let total = n.pow(len as u32);
        let mut toks = vec![0usize; len];
        for code in 0..total {
            idx += 1;
            if !ctx.mine(idx) {
                continue;
            }
            let mut c = code;
            for t in toks.iter_mut() {
                *t = (c % n) as usize;
                c /= n;
            }
            let text = toks.iter().map(|t| ALPHABET[*t].0).collect::<Vec<_>>().join("; ");
            if !ctx.begin(&text) {
                continue;
            }
            ctx.count("workload:exhaustive");
            let instructions: Vec<Instruction> = toks.iter().map(|t| alphabet_instruction(*t)).collect();
            let ops: Vec<Op> = toks
                .iter()
                .map(|t| Op { qubits: ALPHABET[*t].1.to_vec(), is_gate: ALPHABET[*t].2 })
                .collect();
            judge(ctx, &text, &instructions, &ops);
            if ctx.done() {
                return;
            }
        }
    }
    // (b) random
    let mut rng = ctx.rng(1);
    let budget = ctx.share(ctx.tier.pick(200_000, 2_000_000));
    for _ in 0..budget {
        let (text, instructions, ops) = random_block(&mut rng);
        if !ctx.begin(&text) {
            continue;
        }
        ctx.count("workload:random");
        judge(ctx, &text, &instructions, &ops);
        if ctx.shard == 0 {
            ctx.sample("random-block", json!(text));
        }
        if ctx.done() {
            return;
        }
    }
    if ctx.shard == 0 {
        ctx.sample("exhaustive-sequence", json!("CNOT 0 1; X 0; CCNOT 1 2 3; MEASURE 2; G4 0 1 2 3"));
    }
}
