//! C16 — calibration lookup follows the documented precedence rules.
//!
//! A case is a *history* of calibration definitions (program text, one `DEFCAL` per definition, each
//! with a unique marker body `PRAGMA c<k>`).  The real set is built by parsing that text; the
//! model set by applying "identical signature replaces in place" to the same history.  Every
//! instruction of a fixed query alphabet (144 gates, 12 measurements) is then looked up
//!   * with `Calibrations::get_match_for_gate` / `get_match_for_measurement` (the returned
//!     reference is located in the set by pointer identity), and
//!   * end to end through `Program::expand_calibrations` (which marker body was inlined),
//! and compared with the model matcher written from the property statement.  The same history is
//! also replayed through `Calibrations::insert_*` and `Calibrations::extend`.

use crate::core::{guarded, hash_of, Ctx};
use crate::gen::calib_gen::{c16_alphabet, c16_def_text, c16_history_for, C16Alphabet};
use crate::model::calib_model::*;
use crate::props::{PropInfo, DEFAULT};
use quil_rs::instruction::Instruction;
use quil_rs::program::Calibrations;
use quil_rs::Program;
use serde_json::json;
use std::collections::HashMap;
use std::str::FromStr;

pub static INFO: PropInfo = PropInfo {
    id: "C16",
    run,
    rule: "case = a history of 1..6 DEFCAL / DEFCAL MEASURE definitions over {X, RX} x {none, CONTROLLED} x qubit patterns over {0, 1, variable} (1 or 2 qubits) x parameters {pi, pi/2, 1.5707963267948966, %t} and MEASURE[!mid] x {0, 1, variable} x {effect, addr, dest} (138 signatures): all histories of length 1 and 2 (19 182, exhaustive), plus random histories of length 3..6 derived from a query so that most definitions match it; each history is queried with all 156 gates/measurements of the same alphabet (incl. variable qubits, an unbound parameter and a non-matching constant). distinct non-trivial = distinct (history, query) pair with at least two matching candidates.",
    assumptions: &[
        "an 'identical signature' is the calibration identifier as written (pi/2 and 1.5707963267948966 are different signatures that match the same gates)",
        "closed constant parameters are compared by value with a 1e-12 relative tolerance; the alphabet contains no nearly-equal constants",
    ],
    exhaustive_quick: false,
    exhaustive_thorough: false,
    exhaustive_note: "histories of length <= 2 over the 138-signature alphabet are enumerated completely in both tiers; longer histories are sampled",
    min_nontrivial: 1000,
    required_counters: &[
        "lookup:gate:candidates>=2",
        "lookup:measure:candidates>=2",
        "winner-decided-by:more-fixed-qubits",
        "winner-decided-by:later-definition",
        "winner-decided-by:exact-qubit-over-variable",
        "history:redefinition-replaced-in-place",
        "lookup:none",
    ],
    ..DEFAULT
};

struct Query {
    text: String,
    real: Instruction,
    model: MInstr,
}

enum CalIr {
    Gate(MGateCal),
    Meas(MMeasCal),
}

struct Shared {
    queries: Vec<Query>,
    /// header text -> IR of the identifier (body filled in per definition)
    headers: HashMap<String, CalIr>,
}

fn header_ir<'a>(shared: &'a mut Shared, header: &str) -> Option<&'a CalIr> {
    if !shared.headers.contains_key(header) {
        let text = format!("{header}:\n    NOP\n");
        let p = guarded(|| Program::from_str(&text)).ok()?.ok()?;
        let m = conv_program(&p);
        let ir = if let Some(g) = m.cals.gate.into_iter().next() {
            CalIr::Gate(g)
        } else {
            CalIr::Meas(m.cals.meas.into_iter().next()?)
        };
        shared.headers.insert(header.to_string(), ir);
    }
    shared.headers.get(header)
}

fn marker(k: usize) -> MInstr {
    MInstr::Pragma { name: format!("c{k}"), args: vec![], data: None }
}

fn check_history(ctx: &mut Ctx, shared: &mut Shared, headers: &[String], workload: &str) {
    // ---- the case, fully generated: definition texts
    let defs: Vec<String> = headers.iter().enumerate().map(|(k, h)| c16_def_text(h, k)).collect();
    let text = defs.join("\n") + "\n";
    if !ctx.begin(&format!("{text}# queried with each of the {} instructions of the C16 query alphabet", shared.queries.len())) {
        return;
    }
    ctx.count(workload);
    ctx.count(&format!("history-length:{}", headers.len()));

    // ---- model set: apply the history with replace-in-place
    let mut mset = MCalSet::default();
    let mut replaced_any = false;
    for (k, h) in headers.iter().enumerate() {
        match header_ir(shared, h) {
            Some(CalIr::Gate(g)) => {
                let mut g = g.clone();
                g.body = vec![marker(k)];
                replaced_any |= insert_gate_cal(&mut mset, g);
            }
            Some(CalIr::Meas(m)) => {
                let mut m = m.clone();
                m.body = vec![marker(k)];
                replaced_any |= insert_meas_cal(&mut mset, m);
            }
            None => {
                ctx.inconclusive("generator produced a calibration header the parser rejects");
                return;
            }
        }
    }
    if replaced_any {
        ctx.count("history:redefinition-replaced-in-place");
    }

    // ---- real set, built by parsing the history
    let program = match guarded(|| Program::from_str(&text)) {
        Err(p) => {
            ctx.violation(&p.signature(), json!({"stage": "parse", "panic": p.to_json()}));
            return;
        }
        Ok(Err(e)) => {
            ctx.inconclusive("history text rejected by the parser");
            if ctx.verbose {
                println!("  parse error: {e}");
            }
            return;
        }
        Ok(Ok(p)) => p,
    };
    let real_set = conv_program(&program).cals;
    if real_set != mset {
        let sig = if real_set.gate.len() + real_set.meas.len() != mset.gate.len() + mset.meas.len() {
            "set-after-history:wrong-number-of-calibrations"
        } else {
            "set-after-history:wrong-order-or-content"
        };
        ctx.violation(sig, json!({"expected": format!("{mset:?}"), "observed": format!("{real_set:?}")}));
        return;
    }

    // ---- the same history through the insertion API and through `extend`
    let api = guarded(|| {
        let mut a = Calibrations::default();
        let mut parts: Vec<Calibrations> = Vec::new();
        for d in &defs {
            let p = Program::from_str(d).map_err(|e| e.to_string())?;
            for c in p.calibrations.iter_calibrations() {
                a.insert_calibration(c.clone());
            }
            for c in p.calibrations.iter_measure_calibrations() {
                a.insert_measurement_calibration(c.clone());
            }
            parts.push(p.calibrations.clone());
        }
        let mut b = Calibrations::default();
        for p in parts {
            b.extend(p);
        }
        Ok::<_, String>((a, b))
    });
    match api {
        Err(p) => ctx.violation(&p.signature(), json!({"stage": "insert api", "panic": p.to_json()})),
        Ok(Err(_)) => ctx.inconclusive("single definition rejected by the parser"),
        Ok(Ok((a, b))) => {
            if a != program.calibrations {
                ctx.violation("history-api:insert-differs-from-parsed-program", json!({"insert": format!("{a:?}"), "parsed": format!("{:?}", program.calibrations)}));
            }
            if b != program.calibrations {
                ctx.violation("history-api:extend-differs-from-parsed-program", json!({"extend": format!("{b:?}"), "parsed": format!("{:?}", program.calibrations)}));
            }
        }
    }

    // ---- lookups
    let case_key = hash_of(&text);
    let mut expected_body: Vec<MInstr> = Vec::with_capacity(shared.queries.len());
    let mut with_queries = program.clone();
    let mut skip_end_to_end = false;
    for (qi, q) in shared.queries.iter().enumerate() {
        // every (history, query) lookup is one evaluation (the history itself was counted by begin)
        if qi > 0 {
            ctx.evaluations += 1;
        }
        with_queries.add_instruction(q.real.clone());
        let (look, kind) = match &q.model {
            MInstr::Gate(g) => (match_gate(&mset, g), "gate"),
            MInstr::Measure(m) => (match_measure(&mset, m), "measure"),
            _ => continue,
        };
        if look.unknown {
            ctx.inconclusive("model cannot decide a parameter comparison");
            skip_end_to_end = true;
            expected_body.push(q.model.clone());
            continue;
        }
        let observed: Result<Option<usize>, _> = guarded(|| match &q.real {
            Instruction::Gate(g) => program.calibrations.get_match_for_gate(g).and_then(|found| {
                program.calibrations.iter_calibrations().position(|c| std::ptr::eq(c, found))
            }),
            Instruction::Measurement(m) => program.calibrations.get_match_for_measurement(m).and_then(|found| {
                program.calibrations.iter_measure_calibrations().position(|c| std::ptr::eq(c, found))
            }),
            _ => None,
        });
        ctx.count(&format!(
            "lookup:{kind}:candidates{}",
            match look.candidates.len() {
                0 => "=0",
                1 => "=1",
                _ => ">=2",
            }
        ));
        if look.winner.is_none() {
            ctx.count("lookup:none");
        }
        if look.candidates.len() >= 2 {
            ctx.nontrivial(&(case_key, qi));
            // what decided?
            let w = look.winner.unwrap();
            if kind == "gate" {
                let fc = |i: usize| mset.gate[i].qubits.iter().filter(|q| matches!(q, MQubit::Fixed(_))).count();
                if look.candidates.iter().any(|&c| fc(c) < fc(w)) {
                    ctx.count("winner-decided-by:more-fixed-qubits");
                }
                if look.candidates.iter().any(|&c| c != w && fc(c) == fc(w)) {
                    ctx.count("winner-decided-by:later-definition");
                }
                if w != *look.candidates.last().unwrap() {
                    ctx.count("winner-is-not-the-last-candidate");
                }
            } else {
                let fixed = |i: usize| matches!(mset.meas[i].qubit, MQubit::Fixed(_));
                if fixed(w) && look.candidates.iter().any(|&c| !fixed(c)) {
                    ctx.count("winner-decided-by:exact-qubit-over-variable");
                }
                if look.candidates.iter().any(|&c| c != w && fixed(c) == fixed(w)) {
                    ctx.count("winner-decided-by:later-definition");
                }
            }
        }
        match observed {
            Err(p) => ctx.violation(&p.signature(), json!({"query": q.text, "panic": p.to_json()})),
            Ok(obs) => {
                if obs != look.winner {
                    let sig = match (look.winner, obs) {
                        (None, Some(_)) => format!("lookup:{kind}:matched-a-calibration-that-must-not-match"),
                        (Some(_), None) => format!("lookup:{kind}:no-match-although-a-calibration-matches"),
                        _ => {
                            let obs_i = obs.unwrap();
                            if !look.candidates.contains(&obs_i) {
                                format!("lookup:{kind}:matched-a-calibration-that-must-not-match")
                            } else {
                                format!("lookup:{kind}:wrong-precedence-among-candidates")
                            }
                        }
                    };
                    ctx.violation(
                        &sig,
                        json!({"query": q.text, "candidates (index into the set)": look.candidates, "expected": look.winner, "observed": obs}),
                    );
                }
            }
        }
        expected_body.push(match look.winner {
            None => q.model.clone(),
            Some(w) => {
                if kind == "gate" {
                    mset.gate[w].body[0].clone()
                } else {
                    mset.meas[w].body[0].clone()
                }
            }
        });
    }

    // ---- end to end: which body does expand_calibrations inline?
    if !skip_end_to_end {
        match guarded(|| with_queries.expand_calibrations()) {
            Err(p) => ctx.violation(&p.signature(), json!({"stage": "expand_calibrations", "panic": p.to_json()})),
            Ok(Err(e)) => ctx.violation(&format!("end-to-end:unexpected-error:{}", error_kind(&e)), json!({"error": e.to_string()})),
            Ok(Ok(expanded)) => {
                let body: Vec<MInstr> = expanded.body_instructions().map(conv_instr).collect();
                ctx.count("end-to-end:expansions-compared");
                if body.len() != expected_body.len() {
                    ctx.violation("end-to-end:body-length-differs", json!({"expected": expected_body.len(), "observed": body.len()}));
                } else if let Some(k) = (0..body.len()).find(|&k| body[k] != expected_body[k]) {
                    ctx.violation(
                        "end-to-end:inlined-body-differs-from-lookup-winner",
                        json!({"query": shared.queries[k].text, "expected": format!("{:?}", expected_body[k]), "observed": format!("{:?}", body[k])}),
                    );
                }
            }
        }
    }
    ctx.sample("history", json!({"definitions": text, "set size": mset.gate.len() + mset.meas.len()}));
}

fn prepare(alpha: &C16Alphabet) -> Option<Shared> {
    let mut queries = Vec::new();
    for t in &alpha.queries {
        let p = guarded(|| Program::from_str(t)).ok()?.ok()?;
        let real = p.body_instructions().next()?.clone();
        let model = conv_instr(&real);
        queries.push(Query { text: t.clone(), real, model });
    }
    Some(Shared { queries, headers: HashMap::new() })
}

fn run(ctx: &mut Ctx) {
    let alpha = c16_alphabet();
    let Some(mut shared) = prepare(&alpha) else {
        // the query alphabet must parse; otherwise nothing can be observed (the run then fails
        // on its required counters)
        ctx.inconclusive("query alphabet rejected by the parser");
        return;
    };
    ctx.count_n("alphabet:signatures", if ctx.shard == 0 { alpha.ids.len() as u64 } else { 0 });
    ctx.count_n("alphabet:queries", if ctx.shard == 0 { alpha.queries.len() as u64 } else { 0 });

    // (a) all histories of length 1 and 2
    let mut idx = 0u64;
    for a in 0..alpha.ids.len() {
        idx += 1;
        if ctx.mine(idx) {
            check_history(ctx, &mut shared, &[alpha.ids[a].clone()], "workload:exhaustive-length-1");
            if ctx.done() {
                return;
            }
        }
        for b in 0..alpha.ids.len() {
            idx += 1;
            if !ctx.mine(idx) {
                continue;
            }
            check_history(ctx, &mut shared, &[alpha.ids[a].clone(), alpha.ids[b].clone()], "workload:exhaustive-length-2");
            if ctx.done() {
                return;
            }
        }
    }

    // (b) random histories derived from a query
    let mut rng = ctx.rng(1);
    let n = ctx.share(ctx.tier.pick(60_000, 1_000_000));
    for _ in 0..n {
        let q = rng.pick(&alpha.queries).clone();
        let mut headers = c16_history_for(&mut rng, &q);
        if rng.chance(1, 3) {
            // mix in definitions derived from a second query
            let q2 = rng.pick(&alpha.queries).clone();
            let more = c16_history_for(&mut rng, &q2);
            for h in more.into_iter().take(2) {
                let at = rng.below(headers.len() + 1);
                headers.insert(at, h);
            }
        }
        check_history(ctx, &mut shared, &headers, "workload:random-derived-from-query");
        if ctx.done() {
            return;
        }
    }
}
