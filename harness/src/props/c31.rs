//! C31 — extern signatures round-trip and CALL resolution follows the rules.
//!
//! Part A (signatures): every generated signature that the public constructors accept is printed
//! with `to_quil` and must parse back (`ExternSignature::from_str`) to an equal signature; the same
//! text placed in a `PRAGMA EXTERN` (built as an AST and, separately, parsed from program text)
//! must give that signature through `Program::try_extern_signature_map_from_pragma_map`.
//!
//! Part B (calls): `Call::resolve_arguments` is `Ok` ⇔ the model resolver of
//! `model::analysis_extern` (written from the statement) says the call resolves.  Only the
//! verdict is compared; which error is reported, and the contents of the resolved argument list,
//! are not part of the statement.  Indices are always in range (the statement does not say what
//! an out-of-range reference is).

use crate::core::{guarded, Ctx, Rng};
use crate::gen::analysis_extern::{
    all_param_types, build_call, build_signature, declarations, extern_pragma, random_signature,
    PARAM_NAMES,
};
use crate::model::analysis_extern::{
    resolve, Arg, Param, ParamTy, Regions, Resolution, Sig, Ty, TYPES,
};
use crate::props::{PropInfo, DEFAULT};
use quil_rs::instruction::{ExternSignature, ExternSignatureMap};
use quil_rs::quil::Quil;
use quil_rs::Program;
use serde_json::json;
use std::str::FromStr;

pub static INFO: PropInfo = PropInfo {
    id: "C31",
    run,
    rule: "cases: (A) signatures: every signature with return in {none, BIT, INTEGER, OCTET, REAL} and <= 2 (thorough: <= 3) parameters over {4 scalar types, 4 types x fixed lengths {1,3}, 4 variable-length types} x {mut, immutable} (enumerated, sharded by index; the empty signature is observed separately), a parameter-name battery of 60 spellings (keywords, case variants, dashes; only names the constructor accepts are in scope), boundary vector lengths, and random arity-3 signatures; (B) calls: for every signature with return in {none, INTEGER, REAL, BIT} (thorough: + OCTET, all 32 parameter variants) and <= 2 parameters over 16 parameter variants, every argument tuple of the right length over 12 argument forms {names b, n, v, x, u; references b[0], n[0], v[2], x[1], u[0]; immediates 1.0 and 0.5-1i} with regions b:BIT[1], n:INTEGER[1], v:INTEGER[3], x:REAL[2] declared and u undeclared, plus tuples one too short / one too long, plus random arity-3 calls. distinct = distinct (signature, call) text; non-trivial = a round-tripped signature with >= 1 parameter, a resolvable call with >= 2 arguments, or a rejected call of the right length with exactly one unfit argument.",
    assumptions: &[
        "a bare name in a scalar or return slot denotes name[0] (Quil reading); it fits iff the region is declared with the slot's type",
        "memory-reference indices are in range; vector lengths above i64::MAX are not generated",
        "only Ok/Err of resolve_arguments is compared, not the error variant nor the resolved arguments",
        "the empty signature (no return, no parameters) is not a valid signature; its rejection is recorded, not asserted",
    ],
    exhaustive_quick: false,
    exhaustive_thorough: false,
    exhaustive_note: "the enumerated sub-spaces of (A) and (B) are complete for the stated alphabets; the name battery, boundary lengths and arity-3 parts are finite lists / samples",
    min_nontrivial: 1000,
    required_counters: &[
        "A:roundtrip-ok", "A:pragma-ast-route-ok", "A:pragma-text-route-ok", "B:resolves", "B:rejected",
        "B:model:wrong-count", "B:model:one-unfit-slot", "B:slot:mutable-scalar:immediate",
        "B:slot:fixed-vector:name-wrong-length", "B:slot:return:immediate", "B:random-arity-3",
    ],
    watchdog_s: 120,
    ..DEFAULT
};

// ---------------------------------------------------------------------------------------------
// Part A

fn signature_difference(a: &ExternSignature, b: &ExternSignature) -> &'static str {
    if a.return_type() != b.return_type() {
        return "return-type";
    }
    if a.parameters().len() != b.parameters().len() {
        return "parameter-count";
    }
    for (p, q) in a.parameters().iter().zip(b.parameters()) {
        if p.name() != q.name() {
            return "parameter-name";
        }
        if p.mutable() != q.mutable() {
            return "mutability";
        }
        if p.data_type() != q.data_type() {
            return "parameter-type";
        }
    }
    "none"
}

struct RoundTrip {
    text: Result<String, String>,
    parsed: Option<Result<ExternSignature, String>>,
    via_pragma_ast: Option<Result<Option<ExternSignature>, String>>,
    via_pragma_text: Option<Result<Option<ExternSignature>, String>>,
}

fn lookup(map: &ExternSignatureMap, name: &str) -> Option<ExternSignature> {
    map.iter().find(|(n, _)| n.as_str() == name).map(|(_, s)| s.clone())
}

fn round_trip(sig: &ExternSignature) -> RoundTrip {
    let text = sig.to_quil().map_err(|e| format!("{e}"));
    let Ok(t) = &text else {
        return RoundTrip { text, parsed: None, via_pragma_ast: None, via_pragma_text: None };
    };
    let parsed = Some(ExternSignature::from_str(t).map_err(|e| format!("{e}")));
    let via_pragma_ast = Some(
        Program::from_instructions(vec![extern_pragma("ext_fn", t)])
            .try_extern_signature_map_from_pragma_map()
            .map(|m| lookup(&m, "ext_fn"))
            .map_err(|(_, e)| format!("{e}")),
    );
    let via_pragma_text = Some(match Program::from_str(&format!("PRAGMA EXTERN ext_fn \"{t}\"\n")) {
        Err(e) => Err(format!("program text does not parse: {e}")),
        Ok(p) => p
            .try_extern_signature_map_from_pragma_map()
            .map(|m| lookup(&m, "ext_fn"))
            .map_err(|(_, e)| format!("{e}")),
    });
    RoundTrip { text, parsed, via_pragma_ast, via_pragma_text }
}

/// `name_class`: Some(..) for the name battery (then constructor rejection is an expected outcome).
fn judge_signature(ctx: &mut Ctx, sig: &Sig, workload: &str, battery: bool) {
    let text = format!("signature: {}", sig.show());
    if !ctx.begin(&text) {
        return;
    }
    ctx.count(workload);
    let built = match guarded(|| build_signature(sig)) {
        Err(p) => {
            ctx.violation(&p.signature(), json!({"panic": p.to_json()}));
            return;
        }
        Ok(Err(e)) => {
            if battery {
                ctx.count("A:name-battery:rejected-by-constructor");
            } else {
                // plain identifiers: the constructor refusing them means the generator is off
                ctx.inconclusive("constructor-rejected-a-generated-signature");
                let _ = e;
            }
            return;
        }
        Ok(Ok(s)) => s,
    };
    if battery {
        ctx.count("A:name-battery:accepted-by-constructor");
    }
    if sig.ret.is_none() && sig.params.is_empty() {
        // not a valid signature: observe only
        match guarded(|| round_trip(&built)) {
            Ok(rt) => ctx.count(match rt.parsed {
                Some(Ok(_)) => "A:empty-signature:accepted-by-from_str",
                _ => "A:empty-signature:rejected-by-from_str",
            }),
            Err(p) => ctx.violation(&p.signature(), json!({"panic": p.to_json()})),
        }
        return;
    }
    if !sig.params.is_empty() {
        ctx.nontrivial(&text);
    }
    ctx.count(&format!("A:arity:{}", sig.params.len()));
    let rt = match guarded(|| round_trip(&built)) {
        Ok(rt) => rt,
        Err(p) => {
            ctx.violation(&p.signature(), json!({"panic": p.to_json()}));
            return;
        }
    };
    let printed = match &rt.text {
        Err(e) => {
            ctx.violation("signature-to_quil-fails", json!({"error": e}));
            return;
        }
        Ok(t) => t.clone(),
    };
    ctx.count(if printed == sig.show() { "A:printed-text-equals-spec-spelling" } else { "A:printed-text-differs-from-spec-spelling" });
    match &rt.parsed {
        Some(Ok(back)) if *back == built => ctx.count("A:roundtrip-ok"),
        Some(Ok(back)) => ctx.violation(
            &format!("signature-roundtrip-changes:{}", signature_difference(&built, back)),
            json!({"printed": printed, "parsed_back": format!("{back:?}")}),
        ),
        Some(Err(e)) => {
            let class = if e.contains("lex") { "lex-error" } else if e.contains("neither a return nor parameters") { "no-return-or-parameters" } else if e.contains("identifier") { "identifier-rejected" } else { "syntax-error" };
            ctx.violation(
                &format!("printed-signature-does-not-parse-back:{class}"),
                json!({"printed": printed, "error": e}),
            );
        }
        None => {}
    }
    for (route, r) in [("pragma-ast-route", &rt.via_pragma_ast), ("pragma-text-route", &rt.via_pragma_text)] {
        match r {
            Some(Ok(Some(s))) if *s == built => ctx.count(&format!("A:{route}-ok")),
            Some(Ok(Some(s))) => ctx.violation(
                &format!("{route}-changes-signature:{}", signature_difference(&built, s)),
                json!({"printed": printed, "got": format!("{s:?}")}),
            ),
            Some(Ok(None)) => ctx.violation(&format!("{route}-loses-the-extern"), json!({"printed": printed})),
            Some(Err(e)) => {
                // if from_str already failed this is the same root cause: do not double-report
                if matches!(rt.parsed, Some(Ok(_))) {
                    ctx.violation(&format!("{route}-fails-although-from_str-succeeds"), json!({"printed": printed, "error": e}));
                }
            }
            None => {}
        }
    }
}

const NAME_BATTERY: [&str; 60] = [
    "a", "_", "a1", "x-y", "a-1", "A_b-c", "mut", "MUT", "Mut", "integer", "Integer", "INTEGER", "bit",
    "BIT", "real", "Real", "octet", "pi", "PI", "Pi", "i", "I", "sin", "SIN", "Sin", "cos", "sqrt",
    "exp", "cis", "as", "AS", "sharing", "offset", "matrix", "permutation", "defgate", "DEFGATE",
    "x", "X", "h", "H", "cnot", "CNOT", "rx", "q0", "a--b", "_-_", "nonblocking", "NONBLOCKING",
    "dagger", "controlled", "e", "E", "e1", "ro", "\u{e9}", "a b", "", "1a", "a-",
];

fn param_variants(lengths: &[u64]) -> Vec<(ParamTy, bool)> {
    let mut out = Vec::new();
    for t in all_param_types(lengths) {
        out.push((t, false));
        out.push((t, true));
    }
    out
}

fn signatures_part_a(ctx: &mut Ctx, idx: &mut u64) {
    let variants = param_variants(&[1, 3]);
    let rets: Vec<Option<Ty>> = std::iter::once(None).chain(TYPES.iter().map(|t| Some(*t))).collect();
    let max_arity = ctx.tier.pick(2, 3);
    for ret in &rets {
        for arity in 0..=max_arity {
            let total = (variants.len() as u64).pow(arity as u32);
            for code in 0..total {
                *idx += 1;
                if !ctx.mine(*idx) {
                    continue;
                }
                let mut c = code;
                let params = (0..arity)
                    .map(|i| {
                        let (ty, mutable) = variants[(c % variants.len() as u64) as usize];
                        c /= variants.len() as u64;
                        Param { name: format!("{}{i}", PARAM_NAMES[(code as usize + i) % PARAM_NAMES.len()]), mutable, ty }
                    })
                    .collect();
                judge_signature(ctx, &Sig { ret: *ret, params }, "A:enumerated-signature", false);
                if ctx.done() {
                    return;
                }
            }
        }
    }
    // name battery (both as the only parameter and as a second parameter)
    for name in NAME_BATTERY {
        for second in [false, true] {
            *idx += 1;
            if !ctx.mine(*idx) {
                continue;
            }
            let mut params = vec![Param { name: name.to_string(), mutable: second, ty: ParamTy::Fixed(Ty::Real, 2) }];
            if second {
                params.insert(0, Param { name: "first".into(), mutable: false, ty: ParamTy::Scalar(Ty::Integer) });
            }
            judge_signature(ctx, &Sig { ret: if second { None } else { Some(Ty::Integer) }, params }, "A:name-battery", true);
            if ctx.done() {
                return;
            }
        }
    }
    // boundary vector lengths
    for len in [0u64, 1, 2, 255, 65_536, 4_294_967_296, 9_223_372_036_854_775_807] {
        for t in TYPES {
            *idx += 1;
            if !ctx.mine(*idx) {
                continue;
            }
            let params = vec![Param { name: "vec".into(), mutable: len % 2 == 0, ty: ParamTy::Fixed(t, len) }];
            judge_signature(ctx, &Sig { ret: None, params }, "A:boundary-length", false);
            if ctx.done() {
                return;
            }
        }
    }
}

// ---------------------------------------------------------------------------------------------
// Part B

fn regions() -> Regions {
    [
        ("b".to_string(), (Ty::Bit, 1)),
        ("n".to_string(), (Ty::Integer, 1)),
        ("v".to_string(), (Ty::Integer, 3)),
        ("x".to_string(), (Ty::Real, 2)),
    ]
    .into_iter()
    .collect()
}

fn arg_forms() -> Vec<Arg> {
    vec![
        Arg::Ident("b".into()),
        Arg::Ident("n".into()),
        Arg::Ident("v".into()),
        Arg::Ident("x".into()),
        Arg::Ident("u".into()),
        Arg::Ref("b".into(), 0),
        Arg::Ref("n".into(), 0),
        Arg::Ref("v".into(), 2),
        Arg::Ref("x".into(), 1),
        Arg::Ref("u".into(), 0),
        Arg::Imm(1.0, 0.0),
        Arg::Imm(0.5, -1.0),
    ]
}

/// Why (in the model's words) an argument does not fit — part of the violation signature.
fn misfit_class(sig: &Sig, position: usize, arg: &Arg, regions: &Regions) -> String {
    let (slot, want_ty, want_len) = if position == 0 && sig.ret.is_some() {
        ("return", sig.ret, None)
    } else {
        let p = &sig.params[position - usize::from(sig.ret.is_some())];
        match p.ty {
            ParamTy::Scalar(t) => (if p.mutable { "mutable-scalar" } else { "scalar" }, Some(t), None),
            ParamTy::Fixed(t, l) => ("fixed-vector", Some(t), Some(l)),
            ParamTy::Variable(t) => ("variable-vector", Some(t), None),
        }
    };
    let vector = slot.ends_with("vector");
    let arg_class = match arg {
        Arg::Imm(..) => "immediate".to_string(),
        Arg::Ref(n, _) | Arg::Ident(n) => {
            let form = if matches!(arg, Arg::Ref(..)) { "reference" } else { "name" };
            if vector && form == "reference" {
                "reference".to_string()
            } else {
                match regions.get(n) {
                    None => format!("{form}-undeclared"),
                    Some((t, _)) if Some(*t) != want_ty => format!("{form}-wrong-type"),
                    Some((_, l)) if want_len.is_some_and(|w| w != *l) => format!("{form}-wrong-length"),
                    Some(_) => format!("{form}-fitting"),
                }
            }
        }
    };
    format!("{slot}:{arg_class}")
}

struct CallEnv {
    sig: Sig,
    name: String,
    program: Program,
    map: ExternSignatureMap,
}

fn call_env(sig: &Sig, regions: &Regions) -> Option<CallEnv> {
    let name = "ext_fn".to_string();
    let built = guarded(|| {
        let text = build_signature(sig).ok()?.to_quil().ok()?;
        let mut instructions = declarations(regions);
        instructions.push(extern_pragma(&name, &text));
        let program = Program::from_instructions(instructions);
        let map = program.try_extern_signature_map_from_pragma_map().ok()?;
        Some((program, map))
    });
    match built {
        Ok(Some((program, map))) => Some(CallEnv { sig: sig.clone(), name, program, map }),
        _ => None,
    }
}

fn judge_call(ctx: &mut Ctx, env: &CallEnv, args: &[Arg], regions: &Regions, workload: &str) {
    let text = format!(
        "CALL {}{}   with PRAGMA EXTERN {} \"{}\"; DECLARE b BIT[1]; n INTEGER[1]; v INTEGER[3]; x REAL[2]",
        env.name,
        args.iter().map(|a| format!(" {}", a.show())).collect::<String>(),
        env.name,
        env.sig.show()
    );
    if !ctx.begin(&text) {
        return;
    }
    ctx.count(workload);
    let model = resolve(&env.sig, args, regions);
    match &model {
        Resolution::Resolves => {
            ctx.count("B:model:resolves");
            if args.len() >= 2 {
                ctx.nontrivial(&text);
            }
        }
        Resolution::WrongArgumentCount => ctx.count("B:model:wrong-count"),
        Resolution::UnfitSlots(u) => {
            if u.len() == 1 {
                ctx.count("B:model:one-unfit-slot");
                ctx.nontrivial(&text);
            } else {
                ctx.count("B:model:several-unfit-slots");
            }
            for pos in u {
                ctx.count(&format!("B:slot:{}", misfit_class(&env.sig, *pos, &args[*pos], regions)));
            }
        }
    }
    let call = build_call(&env.name, args);
    let observed = guarded(|| {
        call.resolve_arguments(&env.program.memory_regions, &env.map)
            .map(|r| r.len())
            .map_err(|e| format!("{e}"))
    });
    match observed {
        Err(p) => ctx.violation(&p.signature(), json!({"panic": p.to_json()})),
        Ok(Ok(n)) => {
            ctx.count("B:resolves");
            match &model {
                Resolution::Resolves => {
                    if n != args.len() {
                        ctx.count("B:resolved-list-length-differs-from-argument-count");
                    }
                }
                Resolution::WrongArgumentCount => ctx.violation(
                    "call-resolves-with-wrong-argument-count",
                    json!({"arguments": args.len(), "slots": env.sig.slots()}),
                ),
                Resolution::UnfitSlots(u) => ctx.violation(
                    &format!("call-resolves-with-unfit-argument:{}", misfit_class(&env.sig, u[0], &args[u[0]], regions)),
                    json!({"unfit_positions": u}),
                ),
            }
        }
        Ok(Err(e)) => {
            ctx.count("B:rejected");
            if model == Resolution::Resolves {
                ctx.violation(
                    "call-rejected-although-count-matches-and-every-argument-fits",
                    json!({"error": e}),
                );
            }
        }
    }
}

fn tuples(forms: &[Arg], len: usize, limit: Option<usize>) -> Vec<Vec<Arg>> {
    let n = forms.len();
    let total = n.pow(len as u32);
    let take = limit.map_or(total, |l| l.min(total));
    // when limited, stride through the space so every form shows up in every position
    let stride = if take < total { (total / take).max(1) | 1 } else { 1 };
    (0..take)
        .map(|k| {
            let mut c = (k * stride) % total;
            (0..len)
                .map(|_| {
                    let a = forms[c % n].clone();
                    c /= n;
                    a
                })
                .collect()
        })
        .collect()
}

fn calls_part_b(ctx: &mut Ctx, idx: &mut u64) {
    let regions = regions();
    let forms = arg_forms();
    let thorough = ctx.tier == crate::core::Tier::Thorough;
    let variants: Vec<(ParamTy, bool)> = if thorough {
        param_variants(&[2, 3])
    } else {
        let types = [
            ParamTy::Scalar(Ty::Integer),
            ParamTy::Scalar(Ty::Real),
            ParamTy::Scalar(Ty::Bit),
            ParamTy::Fixed(Ty::Integer, 3),
            ParamTy::Fixed(Ty::Integer, 2),
            ParamTy::Fixed(Ty::Real, 2),
            ParamTy::Variable(Ty::Integer),
            ParamTy::Variable(Ty::Bit),
        ];
        types.iter().flat_map(|t| [(*t, false), (*t, true)]).collect()
    };
    let rets: Vec<Option<Ty>> = if thorough {
        std::iter::once(None).chain(TYPES.iter().map(|t| Some(*t))).collect()
    } else {
        vec![None, Some(Ty::Integer), Some(Ty::Real), Some(Ty::Bit)]
    };
    for ret in &rets {
        for arity in 0..=2usize {
            if ret.is_none() && arity == 0 {
                continue;
            }
            let total = (variants.len() as u64).pow(arity as u32);
            for code in 0..total {
                // shard by signature: one extern map per signature
                *idx += 1;
                if !ctx.mine(*idx) {
                    continue;
                }
                let mut c = code;
                let params: Vec<Param> = (0..arity)
                    .map(|i| {
                        let (ty, mutable) = variants[(c % variants.len() as u64) as usize];
                        c /= variants.len() as u64;
                        Param { name: format!("p{i}"), mutable, ty }
                    })
                    .collect();
                let sig = Sig { ret: *ret, params };
                let Some(env) = call_env(&sig, &regions) else {
                    ctx.count("B:extern-map-could-not-be-built");
                    continue;
                };
                let slots = sig.slots();
                for args in tuples(&forms, slots, None) {
                    judge_call(ctx, &env, &args, &regions, "B:enumerated-call");
                    if ctx.done() {
                        return;
                    }
                }
                // one argument too few / too many
                if slots >= 1 {
                    for args in tuples(&forms, slots - 1, Some(6)) {
                        judge_call(ctx, &env, &args, &regions, "B:wrong-count-call");
                    }
                }
                for args in tuples(&forms, slots + 1, Some(12)) {
                    judge_call(ctx, &env, &args, &regions, "B:wrong-count-call");
                }
                if ctx.done() {
                    return;
                }
            }
        }
    }
}

fn random_part(ctx: &mut Ctx) {
    let regions = regions();
    let forms = arg_forms();
    let mut rng: Rng = ctx.rng(3);
    let n_sigs = ctx.share(ctx.tier.pick(20_000, 800_000));
    for k in 0..n_sigs {
        let mut sig = random_signature(&mut rng, 3, &[1, 2, 3]);
        if sig.params.len() < 3 && rng.chance(2, 3) {
            // bias towards arity 3
            while sig.params.len() < 3 {
                let extra = random_signature(&mut rng, 3, &[1, 2, 3]);
                sig.params.extend(extra.params);
                sig.params.truncate(3);
            }
        }
        for (i, p) in sig.params.iter_mut().enumerate() {
            p.name = format!("{}_{i}", p.name);
        }
        judge_signature(ctx, &sig, "A:random-signature", false);
        if ctx.done() {
            return;
        }
        let Some(env) = call_env(&sig, &regions) else {
            ctx.count("B:extern-map-could-not-be-built");
            continue;
        };
        for _ in 0..6 {
            // start from a fitting tuple where possible, then perturb 0..=2 positions
            let mut args: Vec<Arg> = Vec::new();
            if let Some(t) = sig.ret {
                args.push(fitting_for(&mut rng, ParamTy::Scalar(t), true, &regions, &forms));
            }
            for p in &sig.params {
                args.push(fitting_for(&mut rng, p.ty, p.mutable, &regions, &forms));
            }
            for _ in 0..rng.below(3) {
                if !args.is_empty() {
                    let at = rng.below(args.len());
                    args[at] = rng.pick(&forms).clone();
                }
            }
            if rng.chance(1, 12) {
                args.pop();
            }
            if sig.params.len() == 3 {
                ctx.count("B:random-arity-3");
            }
            judge_call(ctx, &env, &args, &regions, "B:random-call");
            if ctx.done() {
                return;
            }
        }
        if ctx.shard == 0 && k % 500 == 0 {
            ctx.sample("signature", json!(sig.show()));
        }
    }
}

/// Some argument form that fits the slot (falls back to a random form if none exists, e.g. OCTET).
fn fitting_for(rng: &mut Rng, ty: ParamTy, no_immediate: bool, regions: &Regions, forms: &[Arg]) -> Arg {
    let p = Param { name: "p".into(), mutable: no_immediate, ty };
    let fitting: Vec<&Arg> = forms
        .iter()
        .filter(|a| crate::model::analysis_extern::fits_param(a, &p, regions))
        .collect();
    if fitting.is_empty() {
        rng.pick(forms).clone()
    } else {
        (*rng.pick(&fitting)).clone()
    }
}

fn run(ctx: &mut Ctx) {
    let mut idx = 0u64;
    signatures_part_a(ctx, &mut idx);
    if ctx.done() {
        return;
    }
    calls_part_b(ctx, &mut idx);
    if ctx.done() {
        return;
    }
    random_part(ctx);
    if ctx.shard == 0 {
        ctx.sample("call", json!("CALL ext_fn n v x[1] 1.0   with \"INTEGER (p0 : mut INTEGER[3], p1 : REAL, p2 : BIT)\""));
    }
}
