//! Registry of property monitors.

use crate::core::Ctx;

pub mod c01;
pub mod c19;
pub mod c18;
pub mod c17;
pub mod c16;
pub mod container_util;
pub mod c11;
pub mod c10;
pub mod c09;
pub mod c08;
pub mod c34;
pub mod c33;
pub mod c07;
pub mod c04;
pub mod c13;
pub mod c12;
pub mod c03;
pub mod sched_common;
pub mod c35;
pub mod c26;
pub mod c25;
pub mod c24;
pub mod c23;
pub mod c22;
pub mod c21;
pub mod c20;
pub mod c31;
pub mod c30;
pub mod c29;
pub mod c28;
pub mod c27;
pub mod c32;
pub mod c15;
pub mod c14;
pub mod c02;
pub mod c05;
pub mod c06;

pub struct PropInfo {
    pub id: &'static str,
    pub run: fn(&mut Ctx),
    /// How cases are generated and what makes one distinct and non-trivial.
    pub rule: &'static str,
    pub assumptions: &'static [&'static str],
    pub exhaustive_quick: bool,
    pub exhaustive_thorough: bool,
    pub exhaustive_note: &'static str,
    /// Death of the process (signal) while a case is in flight refutes this property.
    pub crash_is_violation: bool,
    /// The run is a check failure (exit 2) when fewer distinct non-trivial cases were observed.
    pub min_nontrivial: u64,
    /// Coverage counters that must be non-zero, or the run is a check failure (exit 2).
    pub required_counters: &'static [&'static str],
    /// Optional refinement of the process-death signature from the input in flight.
    pub crash_class: Option<fn(&str) -> String>,
    /// Seconds without progress on one case before the watchdog declares it inconclusive (quick tier).
    pub watchdog_s: u64,
}

pub const DEFAULT: PropInfo = PropInfo {
    id: "",
    run: |_| {},
    rule: "",
    assumptions: &[],
    exhaustive_quick: false,
    exhaustive_thorough: false,
    exhaustive_note: "",
    crash_is_violation: false,
    min_nontrivial: 2,
    required_counters: &[],
    crash_class: None,
    watchdog_s: 120,
};

pub static REGISTRY: &[&PropInfo] = &[&c01::INFO, &c01::INFO_MIRI, &c02::INFO, &c05::INFO, &c06::INFO, &c14::INFO, &c15::INFO, &c32::INFO, &c27::INFO, &c28::INFO, &c29::INFO, &c30::INFO, &c31::INFO, &c20::INFO, &c21::INFO, &c22::INFO, &c23::INFO, &c24::INFO, &c25::INFO, &c26::INFO, &c35::INFO, &c03::INFO, &c12::INFO, &c13::INFO, &c04::INFO, &c07::INFO, &c33::INFO, &c34::INFO, &c08::INFO, &c09::INFO, &c10::INFO, &c11::INFO, &c16::INFO, &c17::INFO, &c18::INFO, &c19::INFO];

pub fn lookup(id: &str) -> Option<&'static PropInfo> {
    REGISTRY.iter().copied().find(|p| p.id == id)
}
