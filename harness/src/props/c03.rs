//! C03 — serialized expressions denote the same value when parsed back.
//!
//! For every generated expression tree `e` (finite literals): `e.to_quil()` must succeed,
//! `Expression::from_str(text)` must succeed, the parsed expression must mention the same variables
//! and memory references, and under each sampled assignment `parsed.evaluate(..)` must be the same
//! complex value as `e.evaluate(..)`.
//!
//! Oracle for "same value": both sides are evaluated by the real `Expression::evaluate`.  If the
//! results are equal as values the point holds.  If they differ, the point is asserted only when
//! the reference evaluator's conditioning filter (model::expr_eval, DESIGN §3.3, eta = 1e-13)
//! says the original expression is well defined and well conditioned there; then a difference of
//! more than 1e-9*max(1,|a|) is a violation, otherwise the point is inconclusive.
//!
//! Signatures name the defect, not the input: the failing tree is reduced to a minimal failing
//! subtree (all of whose children round-trip correctly) and classified by what makes that node
//! fail.

use crate::core::{guarded, hash_of, Ctx, Rng, Tier};
use crate::gen::expr_gen::{random_tree, Depth2, InOp, LeafProfile, PreOp, Tree};
use crate::model::expr_eval::{assess, close, generic_env, random_env, same_value, Env, Filter, Verdict, C};
use crate::props::{PropInfo, DEFAULT};
use quil_rs::expression::Expression;
use quil_rs::quil::Quil;
use serde_json::{json, Value};
use std::collections::HashMap;
use std::str::FromStr;

pub static INFO: PropInfo = PropInfo {
    id: "C03",
    run,
    rule: "inputs: (a) every expression tree of depth <= 2 over the 12-leaf alphabet {0, 1, -1, 2.5, 2i, 1+2i, -1-2i, 1e-7, 1e15, pi, %x, m[1]} x 5 functions x 2 prefix operators (PrefixOperator::Plus included) x 5 infix operators (3.3 M trees; thorough tier: all of them; quick tier: all trees with a leaf child or a unary root, and every third of the remaining infix-of-two-operator-nodes trees, 1.2 M), (b) random trees up to depth 6 over literals of every printed shape (negative, imaginary, full complex, integral-valued, exponents from 5e-324 to 1e300), pi, 4 variables, 5 memory cells. Each tree is built through the public constructors, printed with to_quil, parsed with Expression::from_str, and both expressions are evaluated with Expression::evaluate under 4 assignments (3 fixed generic ones, one with complex variable values, plus a random one for random trees). distinct = distinct tree; non-trivial = the tree has at least one operator node and its text was produced. The coverage matrix (parent slot x child kind) must be fully populated.",
    assumptions: &[
        "names are restricted to identifiers that are not Quil keywords/function names (name handling is C06's subject)",
        "value equality is asserted only at points the reference evaluator's perturbation filter (rel/abs 1e-13, K=16) classifies as well defined and well conditioned; other differing points are inconclusive",
    ],
    exhaustive_quick: false,
    exhaustive_thorough: false,
    exhaustive_note: "thorough tier: sub-space (a) (all trees of depth <= 2 over the 12-leaf alphabet) is enumerated completely; quick tier thins it; (b) is sampled",
    crash_is_violation: false,
    min_nontrivial: 100_000,
    required_counters: REQUIRED,
    watchdog_s: 120,
    ..DEFAULT
};

/// Coverage requirements: the run is a check failure (exit 2) unless every outcome class the
/// monitor relies on and every cell of the (parent slot x child kind) matrix - 13 slots x 15 kinds,
/// counted at the root of each tree - was observed at least once.
const REQUIRED: &[&str] = &[
    "reparsed:ok",
    "points:equal",
    "workload:depth2-exhaustive",
    "workload:random-depth6",
    "cell:InfCaret.L:NumReal", "cell:InfCaret.L:NumNegReal", "cell:InfCaret.L:NumImag", "cell:InfCaret.L:NumComplex", "cell:InfCaret.L:Pi", "cell:InfCaret.L:Var", "cell:InfCaret.L:Mem", "cell:InfCaret.L:Fun", "cell:InfCaret.L:PreMinus", "cell:InfCaret.L:PrePlus", "cell:InfCaret.L:InfCaret", "cell:InfCaret.L:InfPlus", "cell:InfCaret.L:InfMinus", "cell:InfCaret.L:InfSlash", "cell:InfCaret.L:InfStar",
    "cell:InfCaret.R:NumReal", "cell:InfCaret.R:NumNegReal", "cell:InfCaret.R:NumImag", "cell:InfCaret.R:NumComplex", "cell:InfCaret.R:Pi", "cell:InfCaret.R:Var", "cell:InfCaret.R:Mem", "cell:InfCaret.R:Fun", "cell:InfCaret.R:PreMinus", "cell:InfCaret.R:PrePlus", "cell:InfCaret.R:InfCaret", "cell:InfCaret.R:InfPlus", "cell:InfCaret.R:InfMinus", "cell:InfCaret.R:InfSlash", "cell:InfCaret.R:InfStar",
    "cell:InfPlus.L:NumReal", "cell:InfPlus.L:NumNegReal", "cell:InfPlus.L:NumImag", "cell:InfPlus.L:NumComplex", "cell:InfPlus.L:Pi", "cell:InfPlus.L:Var", "cell:InfPlus.L:Mem", "cell:InfPlus.L:Fun", "cell:InfPlus.L:PreMinus", "cell:InfPlus.L:PrePlus", "cell:InfPlus.L:InfCaret", "cell:InfPlus.L:InfPlus", "cell:InfPlus.L:InfMinus", "cell:InfPlus.L:InfSlash", "cell:InfPlus.L:InfStar",
    "cell:InfPlus.R:NumReal", "cell:InfPlus.R:NumNegReal", "cell:InfPlus.R:NumImag", "cell:InfPlus.R:NumComplex", "cell:InfPlus.R:Pi", "cell:InfPlus.R:Var", "cell:InfPlus.R:Mem", "cell:InfPlus.R:Fun", "cell:InfPlus.R:PreMinus", "cell:InfPlus.R:PrePlus", "cell:InfPlus.R:InfCaret", "cell:InfPlus.R:InfPlus", "cell:InfPlus.R:InfMinus", "cell:InfPlus.R:InfSlash", "cell:InfPlus.R:InfStar",
    "cell:InfMinus.L:NumReal", "cell:InfMinus.L:NumNegReal", "cell:InfMinus.L:NumImag", "cell:InfMinus.L:NumComplex", "cell:InfMinus.L:Pi", "cell:InfMinus.L:Var", "cell:InfMinus.L:Mem", "cell:InfMinus.L:Fun", "cell:InfMinus.L:PreMinus", "cell:InfMinus.L:PrePlus", "cell:InfMinus.L:InfCaret", "cell:InfMinus.L:InfPlus", "cell:InfMinus.L:InfMinus", "cell:InfMinus.L:InfSlash", "cell:InfMinus.L:InfStar",
    "cell:InfMinus.R:NumReal", "cell:InfMinus.R:NumNegReal", "cell:InfMinus.R:NumImag", "cell:InfMinus.R:NumComplex", "cell:InfMinus.R:Pi", "cell:InfMinus.R:Var", "cell:InfMinus.R:Mem", "cell:InfMinus.R:Fun", "cell:InfMinus.R:PreMinus", "cell:InfMinus.R:PrePlus", "cell:InfMinus.R:InfCaret", "cell:InfMinus.R:InfPlus", "cell:InfMinus.R:InfMinus", "cell:InfMinus.R:InfSlash", "cell:InfMinus.R:InfStar",
    "cell:InfSlash.L:NumReal", "cell:InfSlash.L:NumNegReal", "cell:InfSlash.L:NumImag", "cell:InfSlash.L:NumComplex", "cell:InfSlash.L:Pi", "cell:InfSlash.L:Var", "cell:InfSlash.L:Mem", "cell:InfSlash.L:Fun", "cell:InfSlash.L:PreMinus", "cell:InfSlash.L:PrePlus", "cell:InfSlash.L:InfCaret", "cell:InfSlash.L:InfPlus", "cell:InfSlash.L:InfMinus", "cell:InfSlash.L:InfSlash", "cell:InfSlash.L:InfStar",
    "cell:InfSlash.R:NumReal", "cell:InfSlash.R:NumNegReal", "cell:InfSlash.R:NumImag", "cell:InfSlash.R:NumComplex", "cell:InfSlash.R:Pi", "cell:InfSlash.R:Var", "cell:InfSlash.R:Mem", "cell:InfSlash.R:Fun", "cell:InfSlash.R:PreMinus", "cell:InfSlash.R:PrePlus", "cell:InfSlash.R:InfCaret", "cell:InfSlash.R:InfPlus", "cell:InfSlash.R:InfMinus", "cell:InfSlash.R:InfSlash", "cell:InfSlash.R:InfStar",
    "cell:InfStar.L:NumReal", "cell:InfStar.L:NumNegReal", "cell:InfStar.L:NumImag", "cell:InfStar.L:NumComplex", "cell:InfStar.L:Pi", "cell:InfStar.L:Var", "cell:InfStar.L:Mem", "cell:InfStar.L:Fun", "cell:InfStar.L:PreMinus", "cell:InfStar.L:PrePlus", "cell:InfStar.L:InfCaret", "cell:InfStar.L:InfPlus", "cell:InfStar.L:InfMinus", "cell:InfStar.L:InfSlash", "cell:InfStar.L:InfStar",
    "cell:InfStar.R:NumReal", "cell:InfStar.R:NumNegReal", "cell:InfStar.R:NumImag", "cell:InfStar.R:NumComplex", "cell:InfStar.R:Pi", "cell:InfStar.R:Var", "cell:InfStar.R:Mem", "cell:InfStar.R:Fun", "cell:InfStar.R:PreMinus", "cell:InfStar.R:PrePlus", "cell:InfStar.R:InfCaret", "cell:InfStar.R:InfPlus", "cell:InfStar.R:InfMinus", "cell:InfStar.R:InfSlash", "cell:InfStar.R:InfStar",
    "cell:PreMinus:NumReal", "cell:PreMinus:NumNegReal", "cell:PreMinus:NumImag", "cell:PreMinus:NumComplex", "cell:PreMinus:Pi", "cell:PreMinus:Var", "cell:PreMinus:Mem", "cell:PreMinus:Fun", "cell:PreMinus:PreMinus", "cell:PreMinus:PrePlus", "cell:PreMinus:InfCaret", "cell:PreMinus:InfPlus", "cell:PreMinus:InfMinus", "cell:PreMinus:InfSlash", "cell:PreMinus:InfStar",
    "cell:PrePlus:NumReal", "cell:PrePlus:NumNegReal", "cell:PrePlus:NumImag", "cell:PrePlus:NumComplex", "cell:PrePlus:Pi", "cell:PrePlus:Var", "cell:PrePlus:Mem", "cell:PrePlus:Fun", "cell:PrePlus:PreMinus", "cell:PrePlus:PrePlus", "cell:PrePlus:InfCaret", "cell:PrePlus:InfPlus", "cell:PrePlus:InfMinus", "cell:PrePlus:InfSlash", "cell:PrePlus:InfStar",
    "cell:Fun:NumReal", "cell:Fun:NumNegReal", "cell:Fun:NumImag", "cell:Fun:NumComplex", "cell:Fun:Pi", "cell:Fun:Var", "cell:Fun:Mem", "cell:Fun:Fun", "cell:Fun:PreMinus", "cell:Fun:PrePlus", "cell:Fun:InfCaret", "cell:Fun:InfPlus", "cell:Fun:InfMinus", "cell:Fun:InfSlash", "cell:Fun:InfStar",
];

struct Assignment {
    env: Env,
    vars: HashMap<String, C>,
    mem: HashMap<String, Vec<f64>>,
}

impl Assignment {
    fn new(env: Env) -> Self {
        let vars = env.var_map();
        let mem = env.mem_map();
        Assignment { env, vars, mem }
    }
}

/// What one round trip of one tree showed (real code executed under `guarded`).
enum Outcome {
    Held,
    /// (failure class, detail)
    Failed(&'static str, Value),
    /// A panic in the code under test.
    Panicked(String, Value),
}

struct PointStats {
    equal: u64,
    close: u64,
    inconclusive: Vec<&'static str>,
}

fn c_json(v: C) -> Value {
    json!([v.re, v.im])
}

/// The reading the printer intends for its literals: a negative real `-a` is printed as the text
/// `-a`, which the parser reads as the negation of the literal `a`; `a+bi` is printed as a sum of a
/// real and an imaginary literal; a `+` prefix prints as nothing.  Evaluating this tree instead of
/// the original differs from it only in the signs of zero components (`Number(-1)` has imaginary
/// part +0, `-(1)` has -0), which DESIGN §3.3 classifies as a branch-cut artefact, not a defect.
fn literal_reading(t: &Tree) -> Tree {
    let real = |re: f64| if re < 0.0 { Tree::Pre(PreOp::Minus, Box::new(Tree::Num(-re, 0.0))) } else { Tree::Num(re, 0.0) };
    match t {
        Tree::Num(re, im) => {
            if *re == 0.0 && *im == 0.0 {
                Tree::Num(0.0, 0.0)
            } else if *im == 0.0 {
                real(*re)
            } else if *re == 0.0 {
                if *im < 0.0 {
                    Tree::Pre(PreOp::Minus, Box::new(Tree::Num(0.0, -*im)))
                } else {
                    Tree::Num(0.0, *im)
                }
            } else {
                Tree::Inf(
                    Box::new(real(*re)),
                    if *im < 0.0 { InOp::Minus } else { InOp::Plus },
                    Box::new(Tree::Num(0.0, im.abs())),
                )
            }
        }
        Tree::Pre(PreOp::Plus, a) => literal_reading(a),
        Tree::Pre(o, a) => Tree::Pre(*o, Box::new(literal_reading(a))),
        Tree::Fun(f, a) => Tree::Fun(*f, Box::new(literal_reading(a))),
        Tree::Inf(l, o, r) => Tree::Inf(Box::new(literal_reading(l)), *o, Box::new(literal_reading(r))),
        leaf => leaf.clone(),
    }
}

/// Print, parse, compare names and values.  `stats` is filled for the top-level call only.
fn round_trip(tree: &Tree, assignments: &[Assignment], seed: u64, stats: Option<&mut PointStats>) -> (Outcome, Option<String>) {
    let expr = tree.to_expression();
    let text = match guarded(|| expr.to_quil()) {
        Err(p) => return (Outcome::Panicked(p.signature(), json!({"stage": "to_quil", "panic": p.to_json()})), None),
        Ok(Err(e)) => return (Outcome::Failed("to-quil-error", json!({"error": format!("{e:?}")})), None),
        Ok(Ok(t)) => t,
    };
    let parsed = match guarded(|| Expression::from_str(&text).map_err(|e| format!("{e}"))) {
        Err(p) => {
            return (
                Outcome::Panicked(p.signature(), json!({"stage": "from_str", "text": text, "panic": p.to_json()})),
                Some(text),
            )
        }
        Ok(Err(e)) => {
            return (
                Outcome::Failed("reparse-failed", json!({"text": text, "parse_error": crate::core::clip(&e, 300)})),
                Some(text),
            )
        }
        Ok(Ok(p)) => p,
    };
    let ptree = Tree::from_expression(&parsed);
    if ptree.variable_set() != tree.variable_set() || ptree.memory_ref_set() != tree.memory_ref_set() {
        return (
            Outcome::Failed(
                "free-names-changed",
                json!({"text": text, "original_variables": tree.variable_set(), "parsed_variables": ptree.variable_set(),
                       "original_memory": tree.memory_ref_set(), "parsed_memory": ptree.memory_ref_set()}),
            ),
            Some(text),
        );
    }
    let mut local = PointStats { equal: 0, close: 0, inconclusive: Vec::new() };
    let mut failure: Option<Outcome> = None;
    let reading = literal_reading(tree);
    let reading_expr = if reading.same(tree) { None } else { Some(reading.to_expression()) };
    for (k, a) in assignments.iter().enumerate() {
        let orig = guarded(|| expr.evaluate(&a.vars, &a.mem));
        let back = guarded(|| parsed.evaluate(&a.vars, &a.mem));
        let (orig, back) = match (orig, back) {
            (Err(p), _) | (_, Err(p)) => {
                failure = Some(Outcome::Panicked(p.signature(), json!({"stage": "evaluate", "text": text, "panic": p.to_json()})));
                break;
            }
            (Ok(o), Ok(b)) => (o, b),
        };
        match (orig, back) {
            (Ok(o), Ok(b)) => {
                if same_value(o, b) {
                    local.equal += 1;
                    continue;
                }
                // equal to the printer's intended reading of the literals: the difference to the
                // original is a sign of a zero component only (branch-cut artefact, §3.3)
                if let Some(re) = &reading_expr {
                    if let Ok(Ok(n)) = guarded(|| re.evaluate(&a.vars, &a.mem)) {
                        if same_value(n, b) {
                            local.inconclusive.push("ill-conditioned:differs-only-through-sign-of-zero-of-a-split-literal");
                            continue;
                        }
                    }
                }
                // differing results: only well-defined, well-conditioned points may be asserted
                let mut prng = Rng::from_parts(&[seed, k as u64, 0xC03]);
                match assess(tree, &a.env, &Filter::ROUNDTRIP, &mut prng) {
                    Verdict::Good { value, .. } => {
                        if !close(value, o, 1e-9) {
                            // the reference model and the real evaluator disagree on the original:
                            // not this property's subject, and not a point to judge with
                            local.inconclusive.push("reference-evaluator-disagrees-with-evaluate");
                        } else if close(o, b, Filter::ROUNDTRIP.tol) {
                            local.close += 1;
                        } else {
                            failure = Some(Outcome::Failed(
                                "value-changed",
                                json!({"text": text, "reparsed_as": ptree.describe(), "assignment": a.env.to_json(),
                                       "original_value": c_json(o), "reparsed_value": c_json(b), "reference_value": c_json(value)}),
                            ));
                            break;
                        }
                    }
                    v => local.inconclusive.push(v.reason()),
                }
            }
            (Ok(_), Err(e)) => {
                failure = Some(Outcome::Failed(
                    "evaluation-fails-after-roundtrip",
                    json!({"text": text, "error": format!("{e:?}")}),
                ));
                break;
            }
            (Err(_), _) => local.inconclusive.push("original-not-evaluable"),
        }
    }
    if let Some(s) = stats {
        *s = local;
    }
    (failure.unwrap_or(Outcome::Held), Some(text))
}

/// Replace every literal that has both a real and an imaginary part and is an operand of an infix
/// or prefix operator (possibly through `+` prefixes, which print as nothing) by a fresh variable
/// `c<k>`; returns the new tree and the values of the fresh variables.
fn complex_operands_to_variables(t: &Tree, under_operator: bool, out: &mut Vec<(String, C)>) -> Tree {
    match t {
        Tree::Num(re, im) if under_operator && *re != 0.0 && *im != 0.0 => {
            let name = format!("c{}", out.len());
            out.push((name.clone(), C::new(*re, *im)));
            Tree::Var(name)
        }
        Tree::Pre(PreOp::Plus, a) => Tree::Pre(PreOp::Plus, Box::new(complex_operands_to_variables(a, under_operator, out))),
        Tree::Pre(o, a) => Tree::Pre(*o, Box::new(complex_operands_to_variables(a, true, out))),
        Tree::Fun(f, a) => Tree::Fun(*f, Box::new(complex_operands_to_variables(a, false, out))),
        Tree::Inf(l, o, r) => {
            let l2 = complex_operands_to_variables(l, true, out);
            let r2 = complex_operands_to_variables(r, true, out);
            Tree::Inf(Box::new(l2), *o, Box::new(r2))
        }
        leaf => leaf.clone(),
    }
}

fn generic_shape(t: &Tree) -> String {
    format!("{}({})", t.kind(), t.children().iter().map(|k| k.kind()).collect::<Vec<_>>().join(","))
}

/// Derive the signature of a failed round trip: it names the printing defect, not the input.
///  * text that does not parse: descend to a minimal subtree whose own text does not parse
///    (parsing is deterministic, so this is exact) and look at why;
///  * a changed value: experiment - give every complex literal operand a name (a variable bound to
///    the same value, which prints as an atom); if the round trip then holds, the unparenthesised
///    `a+bi` spelling of those literals is the cause.  Otherwise fall back to the shape of a
///    minimal failing subtree.
fn classify(tree: &Tree, class: &'static str, assignments: &[Assignment], seed: u64) -> (String, Value) {
    let fails_same_way = |t: &Tree| matches!(round_trip(t, assignments, seed, None).0, Outcome::Failed(c, _) if c == class);
    if class == "value-changed" {
        let mut fresh = Vec::new();
        let named = complex_operands_to_variables(tree, false, &mut fresh);
        if !fresh.is_empty() {
            let augmented: Vec<Assignment> = assignments
                .iter()
                .map(|a| {
                    let mut env = a.env.clone();
                    env.vars.extend(fresh.iter().cloned());
                    Assignment::new(env)
                })
                .collect();
            if matches!(round_trip(&named, &augmented, seed, None).0, Outcome::Held) {
                return (
                    "value-changed:complex-literal-not-parenthesised".into(),
                    json!({"experiment": "with every complex literal operand replaced by a variable of the same value the round trip holds",
                           "literals": fresh.iter().map(|(n, v)| json!({"name": n, "value": c_json(*v)})).collect::<Vec<_>>(),
                           "tree_with_named_literals": named.describe()}),
                );
            }
        }
    }
    let mut cur = tree.clone();
    'descend: loop {
        for ch in cur.children() {
            if fails_same_way(ch) {
                cur = ch.clone();
                continue 'descend;
            }
        }
        break;
    }
    let kid_text = |t: &Tree| guarded(|| t.to_expression().to_quil().unwrap_or_default()).unwrap_or_default();
    let reason = match &cur {
        Tree::Pre(PreOp::Minus, kid) if class == "reparse-failed" && kid_text(kid).starts_with('-') => {
            // "-" printed directly in front of an operand whose own text starts with "-"
            "minus-sign-directly-before-minus-sign".to_string()
        }
        _ => generic_shape(&cur),
    };
    (format!("{class}:{reason}"), json!({"minimal_failing_subtree": cur.describe(), "its_text": kid_text(&cur)}))
}

fn check_tree(ctx: &mut Ctx, tree: &Tree, assignments: &[Assignment], workload: &str) {
    let desc = tree.describe();
    if !ctx.begin(&desc) {
        return;
    }
    ctx.count(workload);
    let seed = hash_of(&desc);
    // coverage matrix: root slot x child kind
    match tree {
        Tree::Inf(l, o, r) => {
            ctx.count(&format!("cell:Inf{}.L:{}", o.word(), l.kind()));
            ctx.count(&format!("cell:Inf{}.R:{}", o.word(), r.kind()));
        }
        Tree::Pre(o, t) => ctx.count(&format!("cell:{}:{}", o.word(), t.kind())),
        Tree::Fun(_, t) => ctx.count(&format!("cell:Fun:{}", t.kind())),
        _ => {}
    }
    let mut stats = PointStats { equal: 0, close: 0, inconclusive: Vec::new() };
    let (outcome, text) = round_trip(tree, assignments, seed, Some(&mut stats));
    if text.is_some() && tree.operators() >= 1 {
        ctx.nontrivial(&desc);
    }
    ctx.max("tree-depth", tree.depth() as u64);
    ctx.max("tree-size", tree.size() as u64);
    ctx.count_n("points:equal", stats.equal);
    ctx.count_n("points:close-within-1e-9-at-well-conditioned-point", stats.close);
    for r in &stats.inconclusive {
        ctx.count(&format!("points:inconclusive:{r}"));
        ctx.inconclusive(r);
    }
    match outcome {
        Outcome::Held => {
            ctx.count("reparsed:ok");
            if ctx.case_no() % 50_000 == 1 {
                ctx.sample(workload, json!({"tree": desc, "text": text}));
            }
        }
        Outcome::Panicked(sig, d) => {
            ctx.count("outcome:panic");
            ctx.violation(&sig, d);
        }
        Outcome::Failed(class, d) => {
            ctx.count(&format!("outcome:{class}"));
            let (sig, why) = classify(tree, class, assignments, seed);
            ctx.violation(&sig, json!({"tree": desc, "observed": d, "classification": why}));
        }
    }
}

fn run(ctx: &mut Ctx) {
    let tier = ctx.tier;
    let fixed: Vec<Assignment> = (0..4).map(|k| Assignment::new(generic_env(k))).collect();

    // (a) exhaustive depth <= 2
    let space = Depth2::new(&crate::gen::expr_gen::leaves_c03());
    ctx.count_n("depth2-space-size", if ctx.shard == 0 { space.count() } else { 0 });
    for idx in 0..space.index_space() {
        if !ctx.mine(idx) {
            continue;
        }
        let Some(tree) = space.get(idx) else { continue };
        // quick tier: trees whose two children are both operator nodes are thinned 1 in 3
        // (every tree with a leaf child, every unary tree and every depth <= 1 tree is kept)
        if tier == Tier::Quick && (idx / 16) % 3 != 0 {
            if let Tree::Inf(l, _, r) = &tree {
                if l.depth() > 0 && r.depth() > 0 {
                    continue;
                }
            }
        }
        check_tree(ctx, &tree, &fixed, "workload:depth2-exhaustive");
        if ctx.done() {
            return;
        }
    }

    // (b) random depth <= 6
    let mut rng = ctx.rng(3);
    let n = ctx.share(tier.pick(100_000, 6_000_000));
    let mut assignments: Vec<Assignment> = (0..3).map(|k| Assignment::new(generic_env(k + 1))).collect();
    for _ in 0..n {
        let depth = 1 + rng.below(6);
        let tree = random_tree(&mut rng, depth, LeafProfile::Printing);
        let extra = Assignment::new(random_env(&mut rng));
        assignments.truncate(3);
        assignments.push(extra);
        check_tree(ctx, &tree, &assignments, "workload:random-depth6");
        if ctx.done() {
            return;
        }
    }

}
