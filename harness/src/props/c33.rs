//! C33 — `Program::wrap_in_loop` repeats the body exactly n times, then stops; n = 1 leaves the
//! program unchanged; n = 0 removes only the body; definitions are always preserved.
//!
//! Oracle: the reference interpreter `model::ast_interp` runs (a) the original body n times in a
//! row (carrying memory) and (b) the wrapped body once; the traces of opaque instructions must be
//! identical and (b) must fall off the end within the step budget.  Definitions are compared field
//! by field through the public fields of `Program`.

use crate::core::{clip, guarded, Ctx, Rng};
use crate::gen::ast_gen::{AstCfg, AstGen};
use crate::model::ast_interp::{run, Memory, Outcome};
use crate::props::{PropInfo, DEFAULT};
use quil_rs::instruction::*;
use quil_rs::program::MemoryRegion;
use quil_rs::Program;
use serde_json::json;

pub static INFO: PropInfo = PropInfo {
    id: "C33",
    run: run_prop,
    rule: "programs = definitions (random DECLARE/DEFFRAME/DEFWAVEFORM/DEFCAL/DEFGATE/DEFCIRCUIT/PRAGMA EXTERN from the AST generator) + a body; (a) every body of length <= 3 over 6 opaque templates (gate, parametric gate, pragma, pulse, classical ADD on another region, measure) and (b) random bodies of length <= 8 over gates, pragmas, pulses, captures, delays, fences, classical instructions on other regions and forward internal LABEL/JUMP/JUMP-WHEN/JUMP-UNLESS on read-only flag cells; n in {0..6, 10, 100} (thorough: also 1000); fixed and placeholder start targets; counter = index 0 of a fresh region. distinct = (program text, n, target kind); non-trivial = n >= 2 and body >= 1 instruction.",
    assumptions: &[
        "counter region and start label are not used by the program (as the property requires); counter reference has index 0",
        "bodies do not contain HALT (a body that halts cannot be 'executed n times')",
        "internal jumps are forward only, so the original body terminates; conditions read cells no body instruction writes",
        "opaque instructions are compared with the crate's own == on Instruction",
    ],
    min_nontrivial: 500,
    required_counters: &["n:0", "n:1", "n>=2", "target:placeholder", "target:fixed", "body:with-internal-jumps", "outcome:trace-equal"],
    ..DEFAULT
};

const COUNTER: &str = "wrap_loop_counter";
const START: &str = "wrap-loop-start";

fn templates() -> Vec<Instruction> {
    let frame = FrameIdentifier::new("rf".into(), vec![Qubit::Fixed(0)]);
    vec![
        Instruction::Gate(Gate { name: "X".into(), parameters: vec![], qubits: vec![Qubit::Fixed(0)], modifiers: vec![] }),
        Instruction::Gate(Gate {
            name: "RX".into(),
            parameters: vec![quil_rs::expression::Expression::PiConstant()],
            qubits: vec![Qubit::Fixed(1)],
            modifiers: vec![GateModifier::Dagger],
        }),
        Instruction::Pragma(Pragma::new("PRESERVE_BLOCK".into(), vec![], None)),
        Instruction::Pulse(Pulse::new(true, frame, WaveformInvocation::new("flat".into(), Default::default()))),
        Instruction::Arithmetic(Arithmetic::new(
            ArithmeticOperator::Add,
            MemoryReference::new("work".into(), 0),
            ArithmeticOperand::LiteralInteger(1),
        )),
        Instruction::Measurement(Measurement::new(None, Qubit::Fixed(0), Some(MemoryReference::new("ro".into(), 0)))),
    ]
}

struct Case {
    defs: Vec<Instruction>,
    body: Vec<Instruction>,
    n: u32,
    placeholder_target: bool,
    flags: Vec<((String, u64), i64)>,
    has_jumps: bool,
}

fn random_body(rng: &mut Rng) -> (Vec<Instruction>, Vec<((String, u64), i64)>, bool) {
    const OPAQUE: &[&str] = &[
        "Gate", "Gate", "Pragma", "Pulse", "Capture", "RawCapture", "Delay", "Fence", "Measurement", "Reset",
        "Arithmetic", "Move", "BinaryLogic", "UnaryLogic", "Comparison", "Exchange", "Convert", "Load", "Store",
        "SetPhase", "ShiftFrequency", "SwapPhases", "Nop", "Wait", "Call",
    ];
    let mut body: Vec<Instruction> = Vec::new();
    let len = 1 + rng.below(8);
    {
        let mut g = AstGen::new(rng, AstCfg::plain());
        for _ in 0..len {
            let k = *g.rng.pick(OPAQUE);
            body.push(g.instruction_of(k));
        }
    }
    // forward internal jumps over read-only flag cells
    let mut flags = Vec::new();
    let njumps = if rng.chance(1, 2) { 1 + rng.below(2) } else { 0 };
    for j in 0..njumps {
        let target = if rng.chance(1, 3) {
            Target::Placeholder(TargetPlaceholder::new(format!("inner{j}")))
        } else {
            Target::Fixed(format!("inner-{j}"))
        };
        // positions: jump before index a, label before index b, a <= b (forward)
        let a = rng.below(body.len() + 1);
        let b = a + rng.below(body.len() + 1 - a);
        let cell = (format!("wrap_flag{j}"), rng.below(2) as u64);
        let value = rng.below(2) as i64;
        flags.push((cell.clone(), value));
        let cond = MemoryReference::new(cell.0.clone(), cell.1);
        let jump = match rng.below(3) {
            0 => Instruction::Jump(Jump::new(target.clone())),
            1 => Instruction::JumpWhen(JumpWhen::new(target.clone(), cond)),
            _ => Instruction::JumpUnless(JumpUnless::new(target.clone(), cond)),
        };
        body.insert(b, Instruction::Label(Label::new(target)));
        body.insert(a, jump);
    }
    (body, flags, njumps > 0)
}

fn random_defs(rng: &mut Rng) -> Vec<Instruction> {
    const DEFS: &[&str] = &[
        "Declaration", "Declaration", "FrameDefinition", "WaveformDefinition", "CalibrationDefinition",
        "MeasureCalibrationDefinition", "GateDefinition", "CircuitDefinition", "Pragma",
    ];
    let n = rng.below(5);
    let mut g = AstGen::new(rng, AstCfg::plain());
    let mut out = Vec::new();
    for _ in 0..n {
        let k = *g.rng.pick(DEFS);
        let i = if k == "Pragma" { Instruction::Pragma(g.extern_pragma()) } else { g.instruction_of(k) };
        // the counter region must be fresh
        if let Instruction::Declaration(d) = &i {
            if d.name == COUNTER {
                continue;
            }
        }
        out.push(i);
    }
    out
}

fn check(ctx: &mut Ctx, case: &Case) {
    let start = if case.placeholder_target {
        Target::Placeholder(TargetPlaceholder::new("loop".into()))
    } else {
        Target::Fixed(START.into())
    };
    let all: Vec<Instruction> = case.defs.iter().chain(case.body.iter()).cloned().collect();
    let desc = format!(
        "n={} target={} flags={:?} program={}",
        case.n,
        if case.placeholder_target { "placeholder" } else { "fixed" },
        case.flags,
        clip(&format!("{all:?}"), 3000)
    );
    if !ctx.begin(&desc) {
        return;
    }
    ctx.count(match case.n {
        0 => "n:0",
        1 => "n:1",
        _ => "n>=2",
    });
    ctx.count(if case.placeholder_target { "target:placeholder" } else { "target:fixed" });
    if case.has_jumps {
        ctx.count("body:with-internal-jumps");
    }
    ctx.max("body-length", case.body.len() as u64);

    let orig = match guarded(|| Program::from_instructions(all.clone())) {
        Ok(p) => p,
        Err(p) => {
            ctx.inconclusive("building the program panicked (not this property)");
            let _ = p;
            return;
        }
    };
    let counter = MemoryReference::new(COUNTER.into(), 0);
    let n = case.n;
    let wrapped = match guarded(|| orig.wrap_in_loop(counter.clone(), start.clone(), n)) {
        Ok(w) => w,
        Err(p) => {
            ctx.violation(&p.signature(), json!({"panic": p.to_json()}));
            return;
        }
    };

    // --- definitions are preserved in all cases
    let mut expected_regions = orig.memory_regions.clone();
    if n >= 2 {
        expected_regions.insert(
            COUNTER.to_string(),
            MemoryRegion { size: Vector::new(ScalarType::Integer, 1), sharing: None },
        );
    }
    let defs_ok = guarded(|| {
        let mut bad = Vec::new();
        if wrapped.calibrations != orig.calibrations {
            bad.push("calibrations");
        }
        if wrapped.frames != orig.frames {
            bad.push("frames");
        }
        if wrapped.waveforms != orig.waveforms {
            bad.push("waveforms");
        }
        if wrapped.gate_definitions != orig.gate_definitions {
            bad.push("gate_definitions");
        }
        if wrapped.circuits != orig.circuits {
            bad.push("circuits");
        }
        if wrapped.extern_pragma_map != orig.extern_pragma_map {
            bad.push("extern_pragma_map");
        }
        if wrapped.memory_regions != expected_regions {
            bad.push("memory_regions");
        }
        bad
    });
    match defs_ok {
        Ok(bad) if bad.is_empty() => {}
        Ok(bad) => {
            ctx.violation(
                &format!("definitions-not-preserved:{}", bad[0]),
                json!({"n": n, "fields": bad}),
            );
            return;
        }
        Err(p) => {
            ctx.violation(&p.signature(), json!({"panic": p.to_json()}));
            return;
        }
    }

    let wbody: Vec<Instruction> = wrapped.body_instructions().cloned().collect();
    let obody: Vec<Instruction> = orig.body_instructions().cloned().collect();
    match n {
        0 => {
            if !wbody.is_empty() {
                ctx.violation("n0:body-not-removed", json!({"body_len": wbody.len()}));
            } else {
                ctx.count("outcome:n0-ok");
            }
            return;
        }
        1 => {
            if guarded(|| wrapped != orig).unwrap_or(true) {
                ctx.violation("n1:program-changed", json!({"wrapped_body_len": wbody.len(), "orig_body_len": obody.len()}));
            } else {
                ctx.count("outcome:n1-ok");
            }
            return;
        }
        _ => {}
    }

    // --- n >= 2: interpret
    let init: Memory = case.flags.iter().cloned().collect();
    let fuel = 10 * (n as u64) * (obody.len() as u64 + 5) + 100;
    // reference: the original body n times in a row
    let mut mem = init.clone();
    let mut unit_traces: Vec<Vec<usize>> = Vec::new();
    for _ in 0..n {
        let r = run(&obody, COUNTER, &mut mem, fuel);
        if r.outcome != Outcome::FellOffEnd {
            ctx.inconclusive("reference run of the original body did not fall off the end");
            return;
        }
        unit_traces.push(r.trace);
    }
    let expected: Vec<&Instruction> = unit_traces.iter().flatten().map(|&k| &obody[k]).collect();
    let mut wmem = init;
    let wr = run(&wbody, COUNTER, &mut wmem, fuel);
    let got: Vec<&Instruction> = wr.trace.iter().map(|&k| &wbody[k]).collect();
    let unit_len = unit_traces[0].len();
    let same_units = unit_traces.iter().all(|t| *t == unit_traces[0]);
    match &wr.outcome {
        Outcome::FellOffEnd => {}
        Outcome::OutOfFuel => {
            ctx.violation("wrapped-program-does-not-stop", json!({"n": n, "steps": wr.steps, "trace_len": got.len(), "expected_trace_len": expected.len()}));
            return;
        }
        other => {
            ctx.violation(
                &format!("wrapped-program-ends-abnormally:{}", match other {
                    Outcome::Halted => "halt",
                    Outcome::UndefinedLabel(_) => "undefined-label",
                    Outcome::DuplicateLabel(_) => "duplicate-label",
                    _ => "unsupported-counter-write",
                }),
                json!({"n": n, "outcome": format!("{other:?}")}),
            );
            return;
        }
    }
    if got == expected {
        ctx.count("outcome:trace-equal");
        ctx.max("trace-length", got.len() as u64);
        if !obody.is_empty() {
            ctx.nontrivial(&(format!("{all:?}"), n, case.placeholder_target));
        }
        ctx.sample("wrapped", json!({"n": n, "body_len": obody.len(), "trace_len": got.len(), "wrapped_body": clip(&format!("{wbody:?}"), 500)}));
    } else {
        let class = if same_units && unit_len > 0 && got.len() % unit_len == 0 && {
            let k = got.len() / unit_len;
            (0..k).all(|r| (0..unit_len).all(|c| got[r * unit_len + c] == expected[c]))
        } {
            if got.len() < expected.len() { "fewer-iterations" } else { "more-iterations" }
        } else {
            "different-instructions"
        };
        ctx.violation(
            &format!("trace-mismatch:{class}"),
            json!({"n": n, "expected_len": expected.len(), "got_len": got.len(), "unit_len": unit_len,
                   "wrapped_body": clip(&format!("{wbody:?}"), 1500)}),
        );
    }
}

fn run_prop(ctx: &mut Ctx) {
    let tier = ctx.tier;
    let ns: &[u32] = tier.pick(&[0, 1, 2, 3, 4, 5, 6, 10, 100][..], &[0, 1, 2, 3, 4, 5, 6, 10, 100, 1000][..]);
    // (a) exhaustive small bodies
    let t = templates();
    let mut idx = 0u64;
    let fixed_defs = vec![
        Instruction::Declaration(Declaration::new("work".into(), Vector::new(ScalarType::Integer, 2), None)),
        Instruction::Declaration(Declaration::new("ro".into(), Vector::new(ScalarType::Bit, 1), None)),
    ];
    for len in 0..=3usize {
        let total = t.len().pow(len as u32);
        for code in 0..total {
            let mut c = code;
            let mut body = Vec::new();
            for _ in 0..len {
                body.push(t[c % t.len()].clone());
                c /= t.len();
            }
            for &n in ns {
                for ph in [false, true] {
                    idx += 1;
                    if !ctx.mine(idx) {
                        continue;
                    }
                    let case = Case { defs: fixed_defs.clone(), body: body.clone(), n, placeholder_target: ph, flags: vec![], has_jumps: false };
                    check(ctx, &case);
                    if ctx.done() {
                        return;
                    }
                }
            }
        }
    }
    // (b) random programs
    let mut rng = ctx.rng(1);
    let budget = ctx.share(tier.pick(700_000, 4_000_000));
    for _ in 0..budget {
        let defs = random_defs(&mut rng);
        let (body, flags, has_jumps) = random_body(&mut rng);
        let n = *rng.pick(ns);
        let ph = rng.chance(1, 2);
        let case = Case { defs, body, n, placeholder_target: ph, flags, has_jumps };
        check(ctx, &case);
        if ctx.done() {
            return;
        }
    }
}
