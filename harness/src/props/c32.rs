//! C32 — built-in waveforms sample to the right length and respond linearly.
//!
//! Oracle (one formula + metamorphic relations, all on the library's own output):
//!   * count:   a duration built as k / rate (or within a fifth of the smallest documented
//!              tolerance of it) gives exactly k samples, plus the padding rounded up to whole
//!              samples on each side for erf_square / raised_cosine;
//!   * scale:   samples(scale = s)  = s * samples(scale = 1);
//!   * phase:   samples(phase = p)  = exp(2 pi i p) * samples(phase = 0);
//!   * zero:    scale = 0 gives all-zero samples of the same length;
//!   * partial: any unknown parameter gives a placeholder of the same length; with every
//!              parameter known the partial call gives the same samples as the concrete call;
//!   * a duration that is off by a quarter / half / three quarters of a sample is the documented
//!     `MisalignedDuration` error;
//!   * `IqSamples::sample_count` agrees with the expanded vector (flat representation included).
//! Observed through `BuiltinWaveformParameters::iq_values_at_sample_rate`,
//! `PartialBuiltinWaveformParameters::partial_iq_values_at_sample_rate` (on `BuiltinWaveform<_>`,
//! which dispatches to the seven parameter structs) and `IqSamples::{sample_count, into_iq_values,
//! iter, get}`.

use crate::core::{guarded, Ctx, PanicInfo};
use crate::gen::numeric_waveforms::{Alignment, Common, Kind, Slot, WfCase, ALL_KINDS};
use crate::props::{PropInfo, DEFAULT};
use num_complex::Complex64;
use quil_rs::waveform::builtin::{
    BuiltinWaveformParameters, IqSamplesOrPlaceholder, PartialBuiltinWaveformParameters,
};
use quil_rs::waveform::sampling::{IqSamples, SamplingError};
use serde_json::json;
use std::f64::consts::PI;

pub static INFO: PropInfo = PropInfo {
    id: "C32",
    run,
    rule: "cases: every built-in waveform kind (7) x sample rate in {1e2, 1e3, 1e6, 1e9} x k in 1..=64 x duration built as k/rate, (k + d)/rate and (k - d)/rate with d = 0.2/(100 rate) samples (a fifth of the library's own tolerance, far inside the documented 1%), with 6 (quick) / 64 (thorough) seed-dependent draws of the remaining parameters from bounded ranges; plus (k + f)/rate, f in {0.25, 0.5, 0.75}, for 8 values of k (must be the MisalignedDuration error); plus 40000 (quick) / 1000000 (thorough) long aligned durations (k log-uniform in 65..4e6 for flat/boxcar, 65..2e4 for gaussian). Every aligned case makes the concrete calls for the scale/phase/zero relations and partial calls over subsets of unknown parameters (all subsets of {kind parameters} x {absent, known, unknown}^3 for k in {2, 33} (+ {7, 64} thorough), 4 (quick) / 12 (thorough) random subsets otherwise). distinct = distinct case description; non-trivial = an aligned case whose base call returned >= 2 samples.",
    assumptions: &[
        "a duration 'aligns with the sample rate' when it is the double nearest to k/rate, or within 0.002/rate samples-worth of it (inside both the documented 1% tolerance and the tolerance the code applies)",
        "padding 'rounded up': when pad*rate is within 1e-6 relative of an integer j but its floating-point value is above j, both j and j+1 are accepted",
        "with a known zero scale and other parameters unknown, either a placeholder or all-zero samples of the right length is accepted",
        "comparisons use 1e-9 * max(1, largest |expected sample|) after a perturbation filter (relative 1e-13 on scale and phase; spread below a tenth of the tolerance)",
    ],
    exhaustive_quick: false,
    exhaustive_thorough: false,
    exhaustive_note: "(kind, rate, k <= 64) and, for selected k, the subsets of unknown parameters are enumerated completely; real-valued parameters are sampled",
    min_nontrivial: 1000,
    required_counters: &[
        "kind:flat", "kind:gaussian", "kind:drag_gaussian", "kind:erf_square", "kind:hermite_gaussian",
        "kind:raised_cosine", "kind:boxcar_kernel", "check:count:ok", "check:scale:ok", "check:phase:ok",
        "check:zero-scale:ok", "check:partial-placeholder:ok", "check:partial-filled:ok",
        "align:off", "align:near", "repr:flat", "repr:samples",
    ],
    ..DEFAULT
};

const RATES: &[f64] = &[1e2, 1e3, 1e6, 1e9];
const TOL: f64 = 1e-9;

type Call = Result<Result<IqSamples<Complex64>, SamplingError>, PanicInfo>;

fn call_concrete(case: &WfCase, c: Common) -> Call {
    let w = case.concrete_waveform();
    let common = case.concrete_common(c);
    let rate = case.rate;
    guarded(move || w.iq_values_at_sample_rate(common, rate))
}

fn call_partial(
    case: &WfCase,
    missing: u32,
    c: Common,
    slots: [Slot; 3],
) -> Result<Result<IqSamplesOrPlaceholder, SamplingError>, PanicInfo> {
    let w = case.partial_waveform(missing);
    let common = case.partial_common(c, slots);
    let rate = case.rate;
    guarded(move || w.partial_iq_values_at_sample_rate(common, rate))
}

fn error_variant(e: &SamplingError) -> &'static str {
    match e {
        SamplingError::SampleCountOutOfRange { .. } => "SampleCountOutOfRange",
        SamplingError::MisalignedDuration { .. } => "MisalignedDuration",
    }
}

/// Expand a sample sequence, checking that the ways of reading it agree.
fn expand<T: Clone + PartialEq>(ctx: &mut Ctx, s: IqSamples<T>, kind: Kind) -> Vec<T> {
    let n = s.sample_count();
    let is_flat = matches!(s, IqSamples::Flat { .. });
    ctx.count(if is_flat { "repr:flat" } else { "repr:samples" });
    let iter_n = s.iter().count();
    let first = s.get(0);
    let beyond = s.get(n);
    let v = s.into_iq_values();
    if v.len() != n || iter_n != n || first.as_ref() != v.first() || beyond.is_some() {
        ctx.violation(
            &format!("iq-samples-api-inconsistent:{}", if is_flat { "flat" } else { "samples" }),
            json!({"kind": kind.name(), "sample_count": n, "into_iq_values_len": v.len(), "iter_count": iter_n}),
        );
    }
    v
}

/// Kinds that share a sampling code path share a signature.
fn family(kind: Kind) -> &'static str {
    match kind {
        Kind::Flat => "flat",
        Kind::BoxcarKernel => "boxcar_kernel",
        Kind::Gaussian | Kind::DragGaussian | Kind::HermiteGaussian => "gaussian-family",
        Kind::ErfSquare | Kind::RaisedCosine => "padded-family",
    }
}

fn max_norm(v: &[Complex64]) -> f64 {
    v.iter().map(|z| z.norm()).fold(0.0, f64::max)
}

/// max |a_i - f * b_i|
fn max_dev(a: &[Complex64], b: &[Complex64], f: Complex64) -> f64 {
    a.iter()
        .zip(b)
        .map(|(x, y)| {
            let d = (x - f * y).norm();
            if d.is_nan() {
                f64::INFINITY
            } else {
                d
            }
        })
        .fold(0.0, f64::max)
}

fn cis_cycles(p: f64) -> Complex64 {
    Complex64::new((2.0 * PI * p).cos(), (2.0 * PI * p).sin())
}

fn run(ctx: &mut Ctx) {
    let tier = ctx.tier;
    let draws = tier.pick(6u64, 64u64);
    let mut idx = 0u64;

    // (0) a fixed battery of long aligned durations first (shard 0 only): small readable witnesses
    if ctx.shard == 0 {
        for (k, rate) in [(128_048u32, 1e9), (1_000_000, 1e9), (2_035_300, 1e9), (100_000, 1e6), (65_000, 1e9)] {
            let mut rng = crate::core::Rng::new(k as u64);
            let mut case = WfCase::generate(&mut rng, Kind::Flat, rate, k, Alignment::Exact);
            case.detuning = 0.0;
            case.iq = Complex64::new(1.0, 0.0);
            case.scale = 1.0;
            case.phase = 0.0;
            long_case(ctx, &case);
            if ctx.done() {
                return;
            }
        }
    }

    // (1) aligned and near-aligned durations, k = 1..=64
    for kind in ALL_KINDS {
        for rate in RATES {
            for k in 1..=64u32 {
                let d = 0.2 / (100.0 * rate);
                for alignment in [Alignment::Exact, Alignment::Near(d), Alignment::Near(-d)] {
                    for draw in 0..draws {
                        idx += 1;
                        if !ctx.mine(idx) {
                            continue;
                        }
                        let mut rng = ctx.global_rng(idx);
                        let case = WfCase::generate(&mut rng, *kind, *rate, k, alignment);
                        let full_partial = draw == 0
                            && alignment == Alignment::Exact
                            && (k == 2 || k == 33 || (tier.pick(false, true) && (k == 7 || k == 64)));
                        let n_random_partial = tier.pick(4usize, 12usize);
                        aligned_case(ctx, &case, full_partial, n_random_partial, rng.next());
                        if ctx.done() {
                            return;
                        }
                    }
                }
            }
        }
    }

    // (2) misaligned durations
    for kind in ALL_KINDS {
        for rate in RATES {
            for k in [1u32, 2, 3, 10, 17, 31, 50, 64] {
                for f in [0.25, 0.5, 0.75] {
                    idx += 1;
                    if !ctx.mine(idx) {
                        continue;
                    }
                    let mut rng = ctx.global_rng(idx);
                    let case = WfCase::generate(&mut rng, *kind, *rate, k, Alignment::Off(f));
                    misaligned_case(ctx, &case);
                    if ctx.done() {
                        return;
                    }
                }
            }
        }
    }

    // (3) long aligned durations (sample counts up to a few million)
    let n_long = tier.pick(40_000u64, 1_000_000u64);
    for j in 0..n_long {
        idx += 1;
        if !ctx.mine(idx) {
            continue;
        }
        let mut rng = ctx.global_rng(idx);
        let kind = *rng.pick(&[Kind::Flat, Kind::BoxcarKernel, Kind::Flat, Kind::Gaussian]);
        let rate = *rng.pick(RATES);
        let hi: f64 = if kind == Kind::Gaussian { 20_000.0 } else { 4.0e6 };
        let k = (65.0 * (hi / 65.0).powf(rng.f64())).round() as u32;
        let mut case = WfCase::generate(&mut rng, kind, rate, k, Alignment::Exact);
        case.detuning = 0.0; // keeps flat / boxcar in their O(1) representation
        let _ = j;
        long_case(ctx, &case);
        if ctx.done() {
            return;
        }
    }
}

fn count_in(range: (usize, usize), n: usize) -> bool {
    range.0 <= n && n <= range.1
}

/// Run a concrete call; handles panic / unexpected error for an aligned duration.
fn aligned_call(ctx: &mut Ctx, case: &WfCase, c: Common, what: &str) -> Option<Vec<Complex64>> {
    match call_concrete(case, c) {
        Err(p) => {
            ctx.violation(&p.signature(), json!({"call": what, "panic": p.to_json()}));
            None
        }
        Ok(Err(e)) => {
            ctx.count(&format!("aligned-call-error:{}", error_variant(&e)));
            ctx.violation(
                &format!("aligned-duration-rejected:{}", error_variant(&e)),
                json!({"call": what, "error": format!("{e}"), "duration_times_rate": format!("{:?}", case.duration * case.rate)}),
            );
            None
        }
        Ok(Ok(s)) => Some(expand(ctx, s, case.kind)),
    }
}

fn aligned_case(ctx: &mut Ctx, case: &WfCase, full_partial: bool, n_random_partial: usize, sub_seed: u64) {
    let desc = case.describe().to_string();
    if !ctx.begin(&desc) {
        return;
    }
    ctx.count(&format!("kind:{}", case.kind.name()));
    // signatures are per family of kinds that share a code path
    let kname = family(case.kind);
    ctx.count(&format!("rate:{:e}", case.rate));
    ctx.count(match case.alignment {
        Alignment::Exact => "align:exact",
        Alignment::Near(_) => "align:near",
        Alignment::Off(_) => "align:off",
    });
    let (s, p, d) = (case.scale, case.phase, case.detuning);
    let det = Some(d);

    // base: scale 1, phase 0
    let Some(base) = aligned_call(ctx, case, Common { scale: Some(1.0), phase: Some(0.0), detuning: det }, "base") else {
        return;
    };
    let want = case.expected_count();
    if count_in(want, base.len()) {
        ctx.count("check:count:ok");
        if want.0 != want.1 {
            ctx.count("check:count:ok(pad-rounding-ambiguous)");
        }
    } else {
        ctx.violation(
            &format!("sample-count:{kname}"),
            json!({"observed": base.len(), "expected": [want.0, want.1], "k": case.k,
                   "pad_left_x_rate": case.pad_left * case.rate, "pad_right_x_rate": case.pad_right * case.rate}),
        );
    }
    let len = base.len();
    let bmax = max_norm(&base);
    if !bmax.is_finite() {
        ctx.inconclusive("non-finite-base-samples");
        return;
    }
    if len >= 2 {
        ctx.nontrivial_input();
    }

    // defaults: nothing given -> same length
    if let Some(v) = aligned_call(ctx, case, Common { scale: None, phase: None, detuning: None }, "defaults") {
        if v.len() != len {
            ctx.violation(&format!("sample-count-depends-on-optional-parameters:{kname}"), json!({"base": len, "defaults": v.len()}));
        } else {
            ctx.count("check:count-with-defaults:ok");
        }
    }

    // relation helper: observed vs factor * base, with the perturbation filter on the factor
    let relation = |ctx: &mut Ctx, what: &str, observed: &[Complex64], factor: Complex64, factor_pert: Complex64| -> bool {
        if observed.len() != len {
            ctx.violation(
                &format!("{what}-changes-length:{kname}"),
                json!({"base": len, "observed": observed.len()}),
            );
            return false;
        }
        let tol = TOL * (factor.norm() * bmax).max(1.0);
        let spread = (factor - factor_pert).norm() * bmax;
        if spread > tol / 10.0 {
            ctx.inconclusive("ill-conditioned-factor");
            return true;
        }
        let dev = max_dev(observed, &base, factor);
        if dev > tol {
            // which sample
            let i = observed
                .iter()
                .zip(&base)
                .position(|(x, y)| !((x - factor * y).norm() <= tol))
                .unwrap_or(0);
            ctx.violation(
                &format!("{what}:{kname}"),
                json!({"max_deviation": dev, "tolerance": tol, "first_bad_index": i,
                       "observed": format!("{}", observed[i]), "expected": format!("{}", factor * base[i]),
                       "base": format!("{}", base[i])}),
            );
            false
        } else {
            ctx.count(&format!("check:{what}:ok"));
            true
        }
    };
    let e = 1e-13;
    let mut singles_ok = true;
    if let Some(v) = aligned_call(ctx, case, Common { scale: Some(s), phase: Some(0.0), detuning: det }, "scaled") {
        singles_ok &= relation(ctx, "scale", &v, Complex64::new(s, 0.0), Complex64::new(s * (1.0 + e), 0.0));
    }
    if let Some(v) = aligned_call(ctx, case, Common { scale: Some(1.0), phase: Some(p), detuning: det }, "phased") {
        singles_ok &= relation(ctx, "phase", &v, cis_cycles(p), cis_cycles(p * (1.0 + e)));
    }
    // both together; only a finding of its own when each relation holds separately
    if singles_ok {
        if let Some(v) = aligned_call(ctx, case, Common { scale: Some(s), phase: Some(p), detuning: det }, "scaled+phased") {
            relation(ctx, "scale-and-phase", &v, s * cis_cycles(p), s * (1.0 + e) * cis_cycles(p * (1.0 + e)));
        }
    }
    // zero scale (also with a phase and the negative zero)
    for (zero, ph) in [(0.0f64, 0.0), (0.0, p), (-0.0, p)] {
        if let Some(v) = aligned_call(ctx, case, Common { scale: Some(zero), phase: Some(ph), detuning: det }, "zero-scale") {
            if v.len() != len {
                ctx.violation(&format!("zero-scale-changes-length:{kname}"), json!({"base": len, "observed": v.len()}));
            } else if v.iter().any(|z| z.re != 0.0 || z.im != 0.0) {
                ctx.violation(&format!("zero-scale-not-all-zero:{kname}"), json!({"max": max_norm(&v)}));
            } else {
                ctx.count("check:zero-scale:ok");
            }
        }
    }

    // partial parameters
    let nf = case.kind.partial_fields().len() as u32;
    let known = Common { scale: Some(s), phase: Some(p), detuning: det };
    // concrete results for every combination of absent / known optional parameters (lazy)
    let mut concrete_cache: [Option<Option<Vec<Complex64>>>; 8] = Default::default();
    let all_slots = [Slot::Absent, Slot::Known, Slot::Unknown];
    let mut combos: Vec<(u32, [Slot; 3])> = Vec::new();
    if full_partial {
        for missing in 0..(1u32 << nf) {
            for a in all_slots {
                for b in all_slots {
                    for c in all_slots {
                        combos.push((missing, [a, b, c]));
                    }
                }
            }
        }
        ctx.count("partial:full-subset-enumeration");
    } else {
        let mut r = crate::core::Rng::new(sub_seed);
        // always: everything known; one random single unknown; then random subsets
        combos.push((0, [Slot::Known, Slot::Known, Slot::Known]));
        for _ in 0..n_random_partial {
            let missing = if nf == 0 { 0 } else { r.next() as u32 & ((1 << nf) - 1) };
            let sl = [*r.pick(&all_slots), *r.pick(&all_slots), *r.pick(&all_slots)];
            combos.push((missing, sl));
        }
    }
    for (missing, slots) in combos {
        let any_unknown = missing != 0 || slots.contains(&Slot::Unknown);
        match call_partial(case, missing, known, slots) {
            Err(pn) => ctx.violation(&pn.signature(), json!({"call": "partial", "panic": pn.to_json()})),
            Ok(Err(e)) => ctx.violation(
                &format!("aligned-duration-rejected:partial:{}", error_variant(&e)),
                json!({"error": format!("{e}")}),
            ),
            Ok(Ok(IqSamplesOrPlaceholder::Placeholder(ph))) => {
                let v = expand(ctx, ph, case.kind);
                if !any_unknown {
                    ctx.violation(
                        &format!("placeholder-although-everything-known:{kname}"),
                        json!({"missing_mask": missing, "slots": format!("{slots:?}")}),
                    );
                } else if v.len() != len {
                    ctx.violation(
                        &format!("partial-placeholder-length:{kname}"),
                        json!({"placeholder": v.len(), "concrete": len, "missing_mask": missing, "slots": format!("{slots:?}")}),
                    );
                } else {
                    ctx.count("check:partial-placeholder:ok");
                    ctx.count(&format!("partial:unknown-count:{}", missing.count_ones() as usize + slots.iter().filter(|s| **s == Slot::Unknown).count()));
                }
            }
            Ok(Ok(IqSamplesOrPlaceholder::Samples(sm))) => {
                let v = expand(ctx, sm, case.kind);
                if any_unknown {
                    // the scale is never zero here, so samples cannot be known
                    ctx.violation(
                        &format!("samples-although-parameters-unknown:{kname}"),
                        json!({"missing_mask": missing, "slots": format!("{slots:?}")}),
                    );
                    continue;
                }
                // everything known: must equal the concrete call with the same parameters
                let ci = slots.iter().enumerate().fold(0usize, |acc, (i, s)| acc | ((*s == Slot::Known) as usize) << i);
                if concrete_cache[ci].is_none() {
                    let c = Common {
                        scale: (slots[0] == Slot::Known).then_some(s),
                        phase: (slots[1] == Slot::Known).then_some(p),
                        detuning: if slots[2] == Slot::Known { det } else { None },
                    };
                    concrete_cache[ci] = Some(aligned_call(ctx, case, c, "concrete-for-partial"));
                }
                if let Some(Some(cv)) = &concrete_cache[ci] {
                    let tol = 1e-12 * max_norm(cv).max(1.0);
                    if cv.len() != v.len() || max_dev(&v, cv, Complex64::new(1.0, 0.0)) > tol {
                        ctx.violation(
                            &format!("partial-filled-differs-from-concrete:{kname}"),
                            json!({"partial_len": v.len(), "concrete_len": cv.len(), "slots": format!("{slots:?}")}),
                        );
                    } else {
                        ctx.count("check:partial-filled:ok");
                    }
                }
            }
        }
    }
    // known zero scale with something else unknown: placeholder or zeros, of the right length
    if nf > 0 {
        let zc = Common { scale: Some(0.0), phase: Some(p), detuning: det };
        match call_partial(case, 1, zc, [Slot::Known, Slot::Known, Slot::Known]) {
            Err(pn) => ctx.violation(&pn.signature(), json!({"call": "partial-zero-scale", "panic": pn.to_json()})),
            Ok(Err(e)) => ctx.violation(
                &format!("aligned-duration-rejected:partial:{}", error_variant(&e)),
                json!({"error": format!("{e}")}),
            ),
            Ok(Ok(IqSamplesOrPlaceholder::Placeholder(ph))) => {
                let v = expand(ctx, ph, case.kind);
                if v.len() != len {
                    ctx.violation(&format!("partial-placeholder-length:{kname}"), json!({"placeholder": v.len(), "concrete": len, "zero_scale": true}));
                } else {
                    ctx.count("check:partial-zero-scale:placeholder");
                }
            }
            Ok(Ok(IqSamplesOrPlaceholder::Samples(sm))) => {
                let v = expand(ctx, sm, case.kind);
                if v.len() != len || v.iter().any(|z| z.re != 0.0 || z.im != 0.0) {
                    ctx.violation(&format!("partial-zero-scale-samples-wrong:{kname}"), json!({"len": v.len(), "concrete": len, "max": max_norm(&v)}));
                } else {
                    ctx.count("check:partial-zero-scale:zeros");
                }
            }
        }
    }
    ctx.sample(case.kind.name(), case.describe());
}

fn misaligned_case(ctx: &mut Ctx, case: &WfCase) {
    let desc = case.describe().to_string();
    if !ctx.begin(&desc) {
        return;
    }
    ctx.count("align:off");
    let c = Common { scale: Some(case.scale), phase: Some(case.phase), detuning: Some(case.detuning) };
    // The property only speaks about durations that align with the sample rate; what happens to a
    // misaligned one (the API documents a `MisalignedDuration` error) is observed and reported as
    // coverage, never judged.
    match call_concrete(case, c) {
        Err(_) => ctx.count("observed:misaligned:panic(not-judged)"),
        Ok(Err(SamplingError::MisalignedDuration { .. })) => ctx.count("observed:misaligned:error-as-documented"),
        Ok(Err(e)) => ctx.count(&format!("observed:misaligned:other-error:{}(not-judged)", error_variant(&e))),
        Ok(Ok(_)) => ctx.count("observed:misaligned:accepted(not-judged)"),
    }
    match call_partial(case, 0, c, [Slot::Unknown, Slot::Known, Slot::Known]) {
        Err(_) => ctx.count("observed:misaligned-partial:panic(not-judged)"),
        Ok(Err(SamplingError::MisalignedDuration { .. })) => ctx.count("observed:misaligned-partial:error-as-documented"),
        Ok(Err(e)) => ctx.count(&format!("observed:misaligned-partial:other-error:{}(not-judged)", error_variant(&e))),
        Ok(Ok(_)) => ctx.count("observed:misaligned-partial:accepted(not-judged)"),
    }
}

fn long_case(ctx: &mut Ctx, case: &WfCase) {
    let desc = case.describe().to_string();
    if !ctx.begin(&desc) {
        return;
    }
    ctx.count("long:cases");
    ctx.max("long:k", case.k as u64);
    let c = Common { scale: Some(case.scale), phase: Some(case.phase), detuning: Some(0.0) };
    match call_concrete(case, c) {
        Err(p) => ctx.violation(&p.signature(), json!({"call": "long", "panic": p.to_json()})),
        Ok(Err(e)) => {
            ctx.count(&format!("long:error:{}", error_variant(&e)));
            ctx.violation(
                &format!("aligned-duration-rejected:{}", error_variant(&e)),
                json!({"error": format!("{e}"), "k": case.k, "rate": case.rate,
                       "duration_times_rate": format!("{:?}", case.duration * case.rate)}),
            );
        }
        Ok(Ok(s)) => {
            let n = s.sample_count();
            if n == case.k as usize {
                ctx.count("long:count:ok");
                ctx.nontrivial_input();
            } else {
                ctx.violation(
                    &format!("sample-count:{}", family(case.kind)),
                    json!({"observed": n, "expected": case.k, "long": true}),
                );
            }
        }
    }
}
