//! C04 — programs built through the public API serialize to text that parses back to an
//! equivalent program; `to_quil` fails with an unresolved-placeholder error exactly when a
//! placeholder is present; the debug serializer never fails.
//!
//! Oracle.  P = `Program::from_instructions(list)`.
//!  * `P.to_quil_or_debug()` must not panic and `P.write(.., true)` must be `Ok`;
//!  * if any qubit / label placeholder occurs anywhere in P (harness's own walker) `P.to_quil()` must
//!    be `Err(UnresolvedQubitPlaceholder | UnresolvedLabelPlaceholder)`, otherwise `Ok(text)`; the
//!    same per instruction;
//!  * `Program::from_str(text)` must succeed and give Q with `Q ≈ P`: the instruction listings are
//!    compared pairwise (keyed definitions matched by key, because the maps that hold them compare
//!    order-insensitively) with `model::ast_eval::instr_equiv` = `==` after replacing every
//!    expression by a constant + value equality of corresponding expressions under a fixed
//!    assignment with the conditioning filter of DESIGN §3.3.
//! When a case fails, each instruction is probed alone to name the culprit, and the signature is
//! `<class>` for the recognised root causes (see `classify`) or `<outcome>:<Variant>[:<field>]`.

use crate::core::{clip, guarded, Ctx, Rng};
use crate::gen::ast_gen::{AstCfg, AstGen, KINDS, REALS};
use crate::model::ast_eval::{compare_by_value, instr_equiv, Equiv, ValueCmp};
use crate::model::ast_walk::{canonical_debug, exprs_of, has_placeholder, kind_name, nested};
use crate::props::{PropInfo, DEFAULT};
use indexmap::IndexMap;
use num_complex::Complex64;
use quil_rs::expression::Expression;
use quil_rs::instruction::*;
use quil_rs::quil::{Quil, ToQuilError};
use quil_rs::Program;
use serde_json::{json, Value};
use std::str::FromStr;

pub static INFO: PropInfo = PropInfo {
    id: "C04",
    run: run_prop,
    rule: "programs built with Program::from_instructions from AST-generator output (every Instruction variant through public constructors/fields; names accepted by validate_user_identifier / validate_identifier, finite numbers, non-empty blocks): (a) per-variant single-instruction programs, (b) random programs of 1..6 instructions, (c) DELAY matrix: 14 duration shapes x {0,1,2} frame names x {0,1,2} qubits x {fixed, variable} qubits, (d) CALL immediates and LiteralReal operands over a boundary battery in every operand position, (e) gates / DEFCALs with every modifier stack of length <= 2, (f) programs with qubit / label placeholders in every slot kind, (g) degenerate definitions with empty bodies. distinct = canonical Debug text of the instruction list; non-trivial = to_quil succeeded and the program has >= 1 instruction.",
    assumptions: &[
        "well-formed = names accepted by the crate's validate_user_identifier (gate/calibration names: validate_identifier and not a lexer keyword), finite numbers, collections non-empty where the grammar needs one element (except workload (g)), definition bodies hold non-definition instructions",
        "equivalent = == on instructions after replacing expressions by constants + equal expression values under one fixed assignment (tolerance 1e-9 relative, conditioning filter); keyed definitions are matched by key; gate parameters inside DEFGATE AS SEQUENCE are not publicly reachable and are generated in shapes that must re-parse to the same tree",
        "either unresolved-placeholder error variant is accepted when a placeholder is present",
        "expression shapes whose printing is the subject of C03 (nested prefix operators, complex literals under operators, unary plus) are generated in 3% of expressions and reported under the expr-printer:* signatures",
    ],
    min_nontrivial: 3000,
    required_counters: &["outcome:roundtrip-equivalent", "outcome:placeholder-error-as-expected", "workload:delay-matrix", "workload:placeholders", "kind:Delay", "kind:Call", "kind:GateDefinition", "kind:CircuitDefinition"],
    ..DEFAULT
};

// ---------------------------------------------------------------------------------------------
// Classification of a failing instruction (signature = root cause where recognisable)

/// Is the first token of the printed form of `e` something the DELAY grammar accepts as a qubit
/// (integer, identifier, %variable)?  Decided on the tree, not on the printed text.
fn starts_like_qubit(e: &Expression) -> bool {
    match e {
        Expression::Number(n) => {
            if n.im == 0.0 || n.re != 0.0 {
                // printed form starts with the real part (or "0")
                let re = if n.im == 0.0 && n.re == 0.0 { 0.0 } else { n.re };
                re >= 0.0 && re.fract() == 0.0 && re.abs() < 1e15
            } else {
                false // pure imaginary: printed as a float followed by `i`
            }
        }
        Expression::PiConstant() | Expression::Variable(_) | Expression::Address(_) | Expression::FunctionCall(_) => true,
        Expression::Prefix(_) => false,
        Expression::Infix(i) => match &*i.left {
            // an infix child is printed in parentheses; everything else as itself
            Expression::Infix(_) => false,
            other => starts_like_qubit(other),
        },
    }
}

fn literal_real_integral(i: &Instruction) -> bool {
    let a = |o: &ArithmeticOperand| matches!(o, ArithmeticOperand::LiteralReal(v) if v.fract() == 0.0);
    match i {
        Instruction::Arithmetic(x) => a(&x.source),
        Instruction::Move(x) => a(&x.source),
        Instruction::Store(x) => a(&x.source),
        Instruction::Comparison(x) => matches!(&x.rhs, ComparisonOperand::LiteralReal(v) if v.fract() == 0.0),
        _ => false,
    }
}

/// Does any expression of `i`, printed and parsed *alone*, fail or change value?  (C03's subject.)
fn expr_printer_class(i: &Instruction) -> Option<&'static str> {
    for e in exprs_of(i) {
        let r = guarded(|| e.to_quil().ok().map(|s| Expression::from_str(&s).ok()));
        match r {
            Ok(Some(Some(back))) => {
                if let ValueCmp::Different { .. } = compare_by_value(&e, &back) {
                    return Some("value-changed");
                }
            }
            Ok(Some(None)) => return Some("reparse-failed"),
            _ => {}
        }
    }
    None
}

fn classify(i: &Instruction, outcome: &str, field: Option<&str>) -> String {
    // culprit inside a block?
    for n in nested(i) {
        if let Probe::Fail(sig, _) = probe(n) {
            return sig;
        }
    }
    let kind = kind_name(i);
    // an expression that does not survive print + parse on its own is C03's root cause, whatever
    // instruction it sits in
    if let Some(c) = expr_printer_class(i) {
        return format!("expr-printer:{c}");
    }
    if let Instruction::Delay(d) = i {
        if d.frame_names.is_empty() && starts_like_qubit(&d.duration) {
            return "Delay:no-frame-name:duration-indistinguishable-from-qubit".into();
        }
    }
    if let Instruction::Call(c) = i {
        if c.arguments.iter().any(|a| matches!(a, UnresolvedCallArgument::Immediate(v) if v.re < 0.0 || v.im < 0.0 || (v.re != 0.0 && v.im != 0.0))) {
            return "Call:immediate-negative-or-complex".into();
        }
    }
    if literal_real_integral(i) && matches!(field, None | Some("source") | Some("rhs")) {
        return "integral-valued-LiteralReal-printed-as-integer".into();
    }
    match field {
        Some(f) => format!("{outcome}:{kind}:{f}"),
        None => format!("{outcome}:{kind}"),
    }
}

enum Probe {
    Ok,
    Inconclusive(&'static str),
    Fail(String, Value),
}

/// Print one (placeholder-free) instruction alone, parse it back as a program, compare.
fn probe(i: &Instruction) -> Probe {
    let kind = kind_name(i);
    let text = match guarded(|| i.to_quil()) {
        Ok(Ok(t)) => t,
        Ok(Err(e)) => return Probe::Fail(format!("to_quil-failed:{kind}"), json!({"error": format!("{e:?}")})),
        Err(p) => return Probe::Fail(p.signature(), json!({"stage": "to_quil", "panic": p.to_json()})),
    };
    let back = match guarded(|| Program::from_str(&text).map(|q| q.to_instructions()).map_err(|e| e.to_string())) {
        Ok(Ok(l)) => l,
        Ok(Err(e)) => {
            return Probe::Fail(
                classify(i, "reparse-failed", None),
                json!({"instruction": clip(&format!("{i:?}"), 800), "text": clip(&text, 400), "error": clip(&e, 300)}),
            )
        }
        Err(p) => return Probe::Fail(p.signature(), json!({"stage": "from_str", "text": clip(&text, 400), "panic": p.to_json()})),
    };
    if back.len() != 1 {
        return Probe::Fail(
            classify(i, "instruction-count-changed", None),
            json!({"instruction": clip(&format!("{i:?}"), 800), "text": clip(&text, 400), "reparsed": clip(&format!("{back:?}"), 800)}),
        );
    }
    match instr_equiv(i, &back[0]) {
        Equiv::Same => Probe::Ok,
        Equiv::Inconclusive(r) => Probe::Inconclusive(r),
        Equiv::Diff { field, detail } => Probe::Fail(
            classify(i, "roundtrip-mismatch", Some(&field)),
            json!({"instruction": clip(&format!("{i:?}"), 800), "text": clip(&text, 400), "difference": detail}),
        ),
    }
}

// ---------------------------------------------------------------------------------------------
// Program comparison

/// Sort key that makes the listing order-insensitive for the definition kinds that `Program` keeps
/// in maps (their equality ignores order), and keeps the order of everything else.
fn listing_key(i: &Instruction) -> (u8, String) {
    match i {
        Instruction::Pragma(p) if p.name == "EXTERN" => (0, format!("{:?}", p.arguments.first())),
        Instruction::Declaration(d) => (1, d.name.clone()),
        Instruction::FrameDefinition(f) => (2, format!("{:?}", f.identifier)),
        Instruction::WaveformDefinition(w) => (3, w.name.clone()),
        Instruction::CalibrationDefinition(_) => (4, String::new()),
        Instruction::MeasureCalibrationDefinition(_) => (5, String::new()),
        Instruction::GateDefinition(g) => (6, g.name.clone()),
        Instruction::CircuitDefinition(c) => (7, c.name.clone()),
        _ => (8, String::new()),
    }
}

fn sorted_listing(p: &Program) -> Vec<Instruction> {
    let mut l = p.to_instructions();
    l.sort_by_key(listing_key); // stable
    l
}

enum Cmp {
    Same,
    Inconclusive(&'static str),
    Diff(String),
}

fn compare_listings(a: &[Instruction], b: &[Instruction]) -> Cmp {
    if a.len() != b.len() {
        return Cmp::Diff(format!("instruction count {} -> {}", a.len(), b.len()));
    }
    let mut inc = None;
    for (k, (x, y)) in a.iter().zip(b.iter()).enumerate() {
        match instr_equiv(x, y) {
            Equiv::Same => {}
            Equiv::Inconclusive(r) => inc = Some(r),
            Equiv::Diff { field, detail } => return Cmp::Diff(format!("instruction #{k} ({}) field {field}: {detail}", kind_name(x))),
        }
    }
    match inc {
        Some(r) => Cmp::Inconclusive(r),
        None => Cmp::Same,
    }
}

// ---------------------------------------------------------------------------------------------
// One case

fn check(ctx: &mut Ctx, list: &[Instruction], workload: &str) {
    let canon = canonical_debug(&list);
    if !ctx.begin(&clip(&canon, 4000)) {
        return;
    }
    ctx.count(workload);
    for i in list {
        ctx.count(&format!("kind:{}", kind_name(i)));
        for n in nested(i) {
            ctx.count(&format!("nested-kind:{}", kind_name(n)));
        }
    }
    let (mut any_q, mut any_t) = (false, false);
    for i in list {
        let (q, t) = has_placeholder(i);
        any_q |= q;
        any_t |= t;
    }
    let _ = (any_q, any_t);

    let built = match guarded(|| Program::from_instructions(list.to_vec())) {
        Ok(p) => p,
        Err(p) => {
            ctx.violation(&p.signature(), json!({"stage": "from_instructions", "panic": p.to_json()}));
            return;
        }
    };
    // placeholders the *program* holds (a later definition with the same key replaces an earlier
    // one, so this can be fewer than the list holds)
    let (any_q, any_t) = match guarded(|| built.to_instructions()) {
        Ok(l) => l.iter().map(has_placeholder).fold((false, false), |a, b| (a.0 | b.0, a.1 | b.1)),
        Err(p) => {
            ctx.violation(&p.signature(), json!({"stage": "to_instructions", "panic": p.to_json()}));
            return;
        }
    };
    let placeholder = any_q || any_t;
    // (1) debug serializer never fails
    match guarded(|| {
        let s = built.to_quil_or_debug();
        let mut buf = String::new();
        let r = built.write(&mut buf, true);
        (s.len(), r.map_err(|e| format!("{e:?}")))
    }) {
        Err(p) => {
            ctx.violation(&format!("debug-serializer-panicked:{}", p.signature()), json!({"panic": p.to_json()}));
            return;
        }
        Ok((_, Err(e))) => {
            ctx.violation("debug-serializer-returned-error", json!({"error": e}));
            return;
        }
        Ok((_, Ok(()))) => ctx.count("outcome:debug-serializer-ok"),
    }
    // (2) per instruction: to_quil fails with an unresolved-placeholder error iff a placeholder is present
    for i in list {
        let (q, t) = has_placeholder(i);
        match guarded(|| i.to_quil()) {
            Err(p) => {
                ctx.violation(&p.signature(), json!({"stage": "Instruction::to_quil", "panic": p.to_json()}));
                return;
            }
            Ok(Ok(text)) => {
                if q || t {
                    ctx.violation(
                        &format!("placeholder-serialized-without-error:{}", if q { "qubit" } else { "label" }),
                        json!({"kind": kind_name(i), "instruction": clip(&canonical_debug(i), 600), "text": clip(&text, 300)}),
                    );
                    return;
                }
            }
            Ok(Err(ToQuilError::UnresolvedQubitPlaceholder)) | Ok(Err(ToQuilError::UnresolvedLabelPlaceholder)) => {
                if !(q || t) {
                    ctx.violation(
                        "placeholder-error-without-placeholder",
                        json!({"kind": kind_name(i), "instruction": clip(&canonical_debug(i), 600)}),
                    );
                    return;
                }
            }
            Ok(Err(e)) => {
                ctx.violation(&format!("to_quil-failed:{}", kind_name(i)), json!({"error": format!("{e:?}")}));
                return;
            }
        }
    }
    // (3) the program
    let text = match guarded(|| built.to_quil()) {
        Err(p) => {
            ctx.violation(&p.signature(), json!({"stage": "Program::to_quil", "panic": p.to_json()}));
            return;
        }
        Ok(Err(ToQuilError::UnresolvedQubitPlaceholder)) | Ok(Err(ToQuilError::UnresolvedLabelPlaceholder)) => {
            if placeholder {
                ctx.count("outcome:placeholder-error-as-expected");
                if any_q {
                    ctx.count("placeholder:qubit");
                }
                if any_t {
                    ctx.count("placeholder:label");
                }
            } else {
                ctx.violation("placeholder-error-without-placeholder:Program", json!({}));
            }
            return;
        }
        Ok(Err(e)) => {
            ctx.violation("to_quil-failed:Program", json!({"error": format!("{e:?}")}));
            return;
        }
        Ok(Ok(t)) => {
            if placeholder {
                ctx.violation("placeholder-serialized-without-error:Program", json!({"text": clip(&t, 400)}));
                return;
            }
            t
        }
    };
    if !list.is_empty() {
        ctx.nontrivial(&canon);
    }
    let expected = match guarded(|| sorted_listing(&built)) {
        Ok(l) => l,
        Err(p) => {
            ctx.violation(&p.signature(), json!({"stage": "to_instructions", "panic": p.to_json()}));
            return;
        }
    };
    let reparsed = guarded(|| Program::from_str(&text).map(|q| sorted_listing(&q)).map_err(|e| e.to_string()));
    let failure: String = match reparsed {
        Err(p) => {
            ctx.violation(&p.signature(), json!({"stage": "from_str", "text": clip(&text, 600), "panic": p.to_json()}));
            return;
        }
        Ok(Err(e)) => format!("printed program does not parse: {}", clip(&e, 300)),
        Ok(Ok(got)) => match compare_listings(&expected, &got) {
            Cmp::Same => {
                ctx.count("outcome:roundtrip-equivalent");
                ctx.sample(workload, json!({"text": clip(&text, 300)}));
                return;
            }
            Cmp::Inconclusive(r) => {
                ctx.inconclusive(r);
                return;
            }
            Cmp::Diff(d) => format!("reparsed program differs: {d}"),
        },
    };
    // name the culprit: probe every listed instruction alone
    ctx.count("outcome:roundtrip-failed");
    for i in &expected {
        match probe(i) {
            Probe::Ok | Probe::Inconclusive(_) => {}
            Probe::Fail(sig, mut detail) => {
                detail["program_failure"] = json!(failure);
                ctx.violation(&sig, detail);
                return;
            }
        }
    }
    ctx.violation(
        "program-level:roundtrip-failed-though-every-instruction-roundtrips-alone",
        json!({"failure": failure, "text": clip(&text, 800)}),
    );
}

// ---------------------------------------------------------------------------------------------
// Workloads

fn num(re: f64, im: f64) -> Expression {
    Expression::Number(Complex64::new(re, im))
}

/// The 14 duration shapes of workload (c).
fn duration_shapes() -> Vec<(&'static str, Expression)> {
    let x = || Expression::Variable("t".into());
    let m = || Expression::Address(MemoryReference::new("dur".into(), 1));
    vec![
        ("real-fractional", num(1.5, 0.0)),
        ("real-small", num(2e-7, 0.0)),
        ("real-integral", num(3.0, 0.0)),
        ("real-negative", num(-1.5, 0.0)),
        ("imaginary", num(0.0, 2.0)),
        ("complex", num(1.0, 2.0)),
        ("pi", Expression::PiConstant()),
        ("variable", x()),
        ("memory-reference", m()),
        ("function", Expression::FunctionCall(quil_rs::expression::FunctionCallExpression::new(
            quil_rs::expression::ExpressionFunction::Cosine, x().into()))),
        ("prefix-minus", -x()),
        ("infix-variable-first", x() * num(2.5, 0.0)),
        ("infix-integer-first", num(2.0, 0.0) * Expression::PiConstant()),
        ("infix-float-first", num(2.5, 0.0) - m()),
    ]
}

fn delay_matrix(ctx: &mut Ctx, idx: &mut u64) {
    for (name, dur) in duration_shapes() {
        for nframes in 0..3usize {
            for nqubits in 0..3usize {
                for variable in [false, true] {
                    if variable && nqubits == 0 {
                        continue;
                    }
                    *idx += 1;
                    if !ctx.mine(*idx) {
                        continue;
                    }
                    let frames: Vec<String> = ["rf", "ro tx"][..nframes].iter().map(|s| s.to_string()).collect();
                    let qubits: Vec<Qubit> = (0..nqubits)
                        .map(|k| if variable { Qubit::Variable(format!("q{k}")) } else { Qubit::Fixed(k as u64 + 3) })
                        .collect();
                    let d = Instruction::Delay(Delay::new(dur.clone(), frames, qubits));
                    ctx.count(&format!("delay:{name}:frames{nframes}"));
                    // alone, and as the middle instruction of a small program
                    if variable {
                        check(ctx, &[d], "workload:delay-matrix");
                    } else {
                        let x = Instruction::Gate(Gate { name: "X".into(), parameters: vec![], qubits: vec![Qubit::Fixed(0)], modifiers: vec![] });
                        check(ctx, &[x.clone(), d, x], "workload:delay-matrix");
                    }
                    if ctx.done() {
                        return;
                    }
                }
            }
        }
    }
}

fn literal_battery(ctx: &mut Ctx, idx: &mut u64) {
    let dst = || MemoryReference::new("dst".into(), 0);
    for &v in REALS {
        for pos in 0..6 {
            *idx += 1;
            if !ctx.mine(*idx) {
                continue;
            }
            let i = match pos {
                0 => Instruction::Move(Move::new(dst(), ArithmeticOperand::LiteralReal(v))),
                1 => Instruction::Arithmetic(Arithmetic::new(ArithmeticOperator::Multiply, dst(), ArithmeticOperand::LiteralReal(v))),
                2 => Instruction::Store(Store::new("region".into(), dst(), ArithmeticOperand::LiteralReal(v))),
                3 => Instruction::Comparison(Comparison::new(ComparisonOperator::LessThan, dst(), dst(), ComparisonOperand::LiteralReal(v))),
                4 => Instruction::Call(Call { name: "ext_fn".into(), arguments: vec![UnresolvedCallArgument::Immediate(Complex64::new(v, 0.0))] }),
                _ => Instruction::Call(Call {
                    name: "ext_fn".into(),
                    arguments: vec![
                        UnresolvedCallArgument::Identifier("dst".into()),
                        UnresolvedCallArgument::Immediate(Complex64::new(if pos == 5 { 0.0 } else { v }, v)),
                        UnresolvedCallArgument::MemoryReference(dst()),
                    ],
                }),
            };
            ctx.count(if v.fract() == 0.0 { "literal:integral-valued" } else { "literal:fractional" });
            check(ctx, &[i], "workload:literal-battery");
            if ctx.done() {
                return;
            }
        }
    }
    // complex immediates
    for &(re, im) in &[(1.0, 2.0), (1.5, -2.5), (-1.0, 0.5), (0.0, -1.0), (0.0, 1.0), (2.0, 0.0)] {
        *idx += 1;
        if !ctx.mine(*idx) {
            continue;
        }
        let i = Instruction::Call(Call { name: "ext_fn".into(), arguments: vec![UnresolvedCallArgument::Immediate(Complex64::new(re, im))] });
        check(ctx, &[i], "workload:literal-battery");
    }
}

fn modifier_battery(ctx: &mut Ctx, idx: &mut u64) {
    let mods = [GateModifier::Controlled, GateModifier::Dagger, GateModifier::Forked];
    let mut stacks: Vec<Vec<GateModifier>> = vec![vec![]];
    for a in mods {
        stacks.push(vec![a]);
        for b in mods {
            stacks.push(vec![a, b]);
        }
    }
    for stack in stacks {
        for defcal in [false, true] {
            *idx += 1;
            if !ctx.mine(*idx) {
                continue;
            }
            let qubits: Vec<Qubit> = (0..=stack.len() as u64).map(Qubit::Fixed).collect();
            let params = vec![num(0.5, 0.0), Expression::PiConstant()];
            let i = if defcal {
                Instruction::CalibrationDefinition(CalibrationDefinition::new(
                    CalibrationIdentifier { name: "RX".into(), modifiers: stack.clone(), parameters: params, qubits },
                    vec![Instruction::Nop()],
                ))
            } else {
                Instruction::Gate(Gate { name: "RX".into(), parameters: params, qubits, modifiers: stack.clone() })
            };
            ctx.count(&format!("modifiers:len{}", stack.len()));
            check(ctx, &[i], "workload:modifier-battery");
            if ctx.done() {
                return;
            }
        }
    }
}

/// (g) definitions with nothing in them: the constructors accept them.
fn degenerate_battery(ctx: &mut Ctx, idx: &mut u64) {
    let cases: Vec<Instruction> = vec![
        Instruction::FrameDefinition(FrameDefinition::new(FrameIdentifier::new("rf".into(), vec![Qubit::Fixed(0)]), IndexMap::new())),
        Instruction::CalibrationDefinition(CalibrationDefinition::new(
            CalibrationIdentifier { name: "X".into(), modifiers: vec![], parameters: vec![], qubits: vec![Qubit::Fixed(0)] },
            vec![],
        )),
        Instruction::MeasureCalibrationDefinition(MeasureCalibrationDefinition::new(MeasureCalibrationIdentifier::new(None, Qubit::Fixed(0), None), vec![])),
        Instruction::CircuitDefinition(CircuitDefinition::new("circ".into(), vec![], vec!["q".into()], vec![])),
        Instruction::WaveformDefinition(WaveformDefinition::new("wf".into(), Waveform::new(vec![], vec![]))),
        Instruction::GateDefinition(GateDefinition { name: "G1".into(), parameters: vec![], specification: GateSpecification::Matrix(vec![]) }),
        Instruction::GateDefinition(GateDefinition { name: "G2".into(), parameters: vec![], specification: GateSpecification::Permutation(vec![]) }),
        Instruction::Fence(Fence::new(vec![])),
        Instruction::Reset(Reset::new(None)),
        Instruction::Pragma(Pragma::new("only_name".into(), vec![], None)),
        Instruction::Declaration(Declaration::new("zero".into(), Vector::new(ScalarType::Bit, 0), None)),
    ];
    for i in cases {
        *idx += 1;
        if !ctx.mine(*idx) {
            continue;
        }
        let follow = Instruction::Gate(Gate { name: "H".into(), parameters: vec![], qubits: vec![Qubit::Fixed(1)], modifiers: vec![] });
        // signature for this workload: `empty-definition-not-reparsable:<Variant>`
        check_degenerate(ctx, &[i, follow]);
    }
}

fn check_degenerate(ctx: &mut Ctx, list: &[Instruction]) {
    let canon = canonical_debug(&list);
    if !ctx.begin(&canon) {
        return;
    }
    ctx.count("workload:degenerate-empty");
    let kind = kind_name(&list[0]);
    let r = guarded(|| {
        let p = Program::from_instructions(list.to_vec());
        let text = p.to_quil().map_err(|e| format!("to_quil: {e:?}"))?;
        let q = Program::from_str(&text).map_err(|e| format!("text {text:?} does not parse: {}", clip(&e.to_string(), 200)))?;
        Ok::<_, String>((sorted_listing(&p), sorted_listing(&q), text))
    });
    match r {
        Err(p) => ctx.violation(&p.signature(), json!({"panic": p.to_json()})),
        Ok(Err(e)) => ctx.violation(&format!("empty-definition-not-reparsable:{kind}"), json!({"detail": e})),
        Ok(Ok((a, b, text))) => match compare_listings(&a, &b) {
            Cmp::Same => {
                ctx.count("outcome:roundtrip-equivalent");
                ctx.nontrivial(&canon);
            }
            Cmp::Inconclusive(r) => ctx.inconclusive(r),
            Cmp::Diff(d) => ctx.violation(&format!("empty-definition-not-reparsable:{kind}"), json!({"detail": d, "text": text})),
        },
    }
}

fn random_list(rng: &mut Rng, cfg: AstCfg, lo: usize, hi: usize) -> Vec<Instruction> {
    let mut g = AstGen::new(rng, cfg);
    g.instructions(lo, hi)
}

fn run_prop(ctx: &mut Ctx) {
    let tier = ctx.tier;
    let mut idx = 0u64;
    // exhaustive batteries
    delay_matrix(ctx, &mut idx);
    if ctx.done() {
        return;
    }
    literal_battery(ctx, &mut idx);
    modifier_battery(ctx, &mut idx);
    degenerate_battery(ctx, &mut idx);
    if ctx.done() {
        return;
    }
    let mut rng = ctx.rng(1);
    // (a) every variant alone
    let per_kind = ctx.share(tier.pick(1_600, 30_000));
    for kind in KINDS {
        for _ in 0..per_kind {
            let i = {
                let mut g = AstGen::new(&mut rng, AstCfg::full());
                g.instruction_of(kind)
            };
            check(ctx, &[i], "workload:single-instruction");
            if ctx.done() {
                return;
            }
        }
    }
    // (b) random programs
    let n = ctx.share(tier.pick(160_000, 3_600_000));
    for _ in 0..n {
        let list = random_list(&mut rng, AstCfg::full(), 1, 6);
        check(ctx, &list, "workload:random-program");
        if ctx.done() {
            return;
        }
    }
    // (b') the conservative sub-language: everything here is expected to round-trip
    let n = ctx.share(tier.pick(80_000, 1_500_000));
    for _ in 0..n {
        let list = random_list(&mut rng, AstCfg::plain(), 1, 8);
        check(ctx, &list, "workload:plain-program");
        if ctx.done() {
            return;
        }
    }
    // (f) placeholders
    let n = ctx.share(tier.pick(80_000, 1_500_000));
    for _ in 0..n {
        let cfg = AstCfg::plain().with_placeholders(if rng.chance(2, 3) { 25 } else { 0 }, if rng.chance(2, 3) { 40 } else { 0 });
        let list = random_list(&mut rng, cfg, 1, 5);
        check(ctx, &list, "workload:placeholders");
        if ctx.done() {
            return;
        }
    }
}
