//! C26 — default frame matching follows the Quil-T frame rules.
//!
//! Oracle: the model matcher `model::sched_model::match_frames`, written from the statement:
//! PULSE / CAPTURE / RAW-CAPTURE use exactly their own frame and, if blocking, block every other
//! frame sharing a qubit; SET-* / SHIFT-* / SWAP-PHASES use exactly their frames; FENCE uses all
//! frames, or those intersecting its qubits; DELAY uses the frames on exactly its qubit set
//! (restricted to its frame names if given); `RESET q` uses the frames on exactly {q} and blocks
//! the others touching q.  Always: used ∪ blocked ⊆ defined frames, used ∩ blocked = ∅.  For a
//! bare `RESET` (whose meaning depends on the program's used-qubit set) only these two general
//! clauses are asserted.
//!
//! Workload (exhaustive): every subset of a 13-frame universe (thorough: 16 frames) x every
//! instruction of a fixed list.  Programs and instructions are built through the public AST
//! constructors (no parser involved).

use crate::core::{guarded, Ctx};
use crate::model::sched_model::{match_frames, FrameInstr, MFrame};
use crate::props::{PropInfo, DEFAULT};
use indexmap::IndexMap;
use num_complex::Complex64;
use quil_rs::expression::Expression;
use quil_rs::instruction::{
    Capture, DefaultHandler, Delay, Fence, FrameDefinition, FrameIdentifier, Gate, Instruction,
    InstructionHandler, MemoryReference, Pulse, Qubit, RawCapture, Reset, SetFrequency, SetPhase,
    SetScale, ShiftFrequency, ShiftPhase, SwapPhases, WaveformInvocation,
};
use quil_rs::Program;
use serde_json::json;
use std::collections::BTreeSet;

pub static INFO: PropInfo = PropInfo {
    id: "C26",
    run,
    rule: "every subset of a frame universe ({0 a, 0 b, 1 a, 1 b, 2 a, 0 1 a, 0 1 b, 1 0 a, 1 2 a, 1 2 b, 0 1 2 a, 2 c, 0 2 a}; thorough adds 2 1 b, 0 c, 1 0 b) as the program's DEFFRAMEs x every instruction of a fixed list of 102 (blocking / non-blocking PULSE on every universe frame and on never-defined frames, CAPTURE, RAW-CAPTURE, the five SET-/SHIFT- updates, SWAP-PHASES incl. identical and undefined frames, FENCE with 0-3 qubits, DELAY over 8 qubit lists x 5 name lists, RESET q, bare RESET on programs with three different body-qubit sets). distinct = (frame subset, instruction); non-trivial = the handler reported a non-empty used or blocked set.",
    assumptions: &[
        "\"FENCE uses ... those on its qubits\" is read as the Quil-T rule: frames that involve at least one of the listed qubits",
        "\"frames on exactly its qubits\" compares qubit sets (0 1 \"a\" and 1 0 \"a\" are both on exactly {0,1})",
        "matching_frames returning None is treated as reporting empty sets",
    ],
    exhaustive_quick: true,
    exhaustive_thorough: true,
    exhaustive_note: "all 2^13 (quick) / 2^16 (thorough) frame subsets x the whole instruction list",
    min_nontrivial: 1000,
    required_counters: &[
        "kind:PULSE",
        "kind:CAPTURE",
        "kind:RAW-CAPTURE",
        "kind:SET/SHIFT",
        "kind:SWAP-PHASES",
        "kind:FENCE",
        "kind:DELAY",
        "kind:RESET-qubit",
        "kind:RESET-bare",
        "observed:blocked-nonempty",
        "observed:instruction-names-undefined-frame",
    ],
    ..DEFAULT
};

fn fid(f: &MFrame) -> FrameIdentifier {
    FrameIdentifier::new(f.1.clone(), f.0.iter().map(|q| Qubit::Fixed(*q)).collect())
}

fn mframe(f: &FrameIdentifier) -> Option<MFrame> {
    let mut q = Vec::new();
    for x in &f.qubits {
        match x {
            Qubit::Fixed(n) => q.push(*n),
            _ => return None,
        }
    }
    Some((q, f.name.clone()))
}

fn ftext(f: &MFrame) -> String {
    let q: Vec<String> = f.0.iter().map(|q| q.to_string()).collect();
    format!("{} \"{}\"", q.join(" "), f.1)
}

fn num(x: f64) -> Expression {
    Expression::Number(Complex64::new(x, 0.0))
}

fn flat() -> WaveformInvocation {
    let mut p = IndexMap::new();
    p.insert("duration".to_string(), num(1.0));
    p.insert("iq".to_string(), num(1.0));
    WaveformInvocation::new("flat".to_string(), p)
}

struct Entry {
    text: String,
    kind: &'static str,
    instr: Instruction,
    model: FrameInstr,
    /// for bare RESET: gates to put in the body first (their qubits feed the used-qubit set)
    body_qubits: Vec<u64>,
}

fn entries(universe: &[MFrame]) -> Vec<Entry> {
    let fr = |q: &[u64], n: &str| -> MFrame { (q.to_vec(), n.to_string()) };
    let ro = MemoryReference { name: "ro".to_string(), index: 0 };
    let mut v: Vec<Entry> = Vec::new();
    let mut play_frames: Vec<MFrame> = universe.to_vec();
    play_frames.push(fr(&[2], "b")); // never defined
    play_frames.push(fr(&[3], "a")); // qubit outside the universe
    for f in &play_frames {
        for blocking in [true, false] {
            let nb = if blocking { "" } else { "NONBLOCKING " };
            v.push(Entry {
                text: format!("{nb}PULSE {} flat(duration: 1.0, iq: 1.0)", ftext(f)),
                kind: "PULSE",
                instr: Instruction::Pulse(Pulse::new(blocking, fid(f), flat())),
                model: FrameInstr::Play { frame: f.clone(), blocking },
                body_qubits: vec![],
            });
        }
    }
    for (f, blocking) in [
        (fr(&[0], "a"), true),
        (fr(&[0], "b"), false),
        (fr(&[0, 1], "a"), true),
        (fr(&[1, 0], "a"), true),
        (fr(&[1, 2], "b"), false),
        (fr(&[2], "b"), true),
    ] {
        let nb = if blocking { "" } else { "NONBLOCKING " };
        v.push(Entry {
            text: format!("{nb}CAPTURE {} flat(duration: 1.0, iq: 1.0) ro[0]", ftext(&f)),
            kind: "CAPTURE",
            instr: Instruction::Capture(Capture::new(blocking, fid(&f), ro.clone(), flat())),
            model: FrameInstr::Play { frame: f.clone(), blocking },
            body_qubits: vec![],
        });
    }
    for (f, blocking) in [
        (fr(&[1], "a"), true),
        (fr(&[1], "b"), false),
        (fr(&[0, 1], "b"), true),
        (fr(&[1, 2], "a"), true),
        (fr(&[2], "a"), false),
    ] {
        let nb = if blocking { "" } else { "NONBLOCKING " };
        v.push(Entry {
            text: format!("{nb}RAW-CAPTURE {} 1.0 ro[0]", ftext(&f)),
            kind: "RAW-CAPTURE",
            instr: Instruction::RawCapture(RawCapture::new(blocking, fid(&f), num(1.0), ro.clone())),
            model: FrameInstr::Play { frame: f.clone(), blocking },
            body_qubits: vec![],
        });
    }
    let upd_frames = [fr(&[0], "a"), fr(&[0, 1], "b"), fr(&[1, 0], "a"), fr(&[2], "b")];
    for (k, op) in ["SET-FREQUENCY", "SET-PHASE", "SET-SCALE", "SHIFT-FREQUENCY", "SHIFT-PHASE"].iter().enumerate() {
        for j in 0..2 {
            let f = upd_frames[(k + j * 2) % upd_frames.len()].clone();
            let id = fid(&f);
            let instr = match k {
                0 => Instruction::SetFrequency(SetFrequency::new(id, num(1.0))),
                1 => Instruction::SetPhase(SetPhase::new(id, num(1.0))),
                2 => Instruction::SetScale(SetScale::new(id, num(1.0))),
                3 => Instruction::ShiftFrequency(ShiftFrequency::new(id, num(1.0))),
                _ => Instruction::ShiftPhase(ShiftPhase::new(id, num(1.0))),
            };
            v.push(Entry {
                text: format!("{op} {} 1.0", ftext(&f)),
                kind: "SET/SHIFT",
                instr,
                model: FrameInstr::Update { frame: f },
                body_qubits: vec![],
            });
        }
    }
    for (a, b) in [
        (fr(&[0], "a"), fr(&[0], "b")),
        (fr(&[0], "a"), fr(&[0, 1], "a")),
        (fr(&[1], "a"), fr(&[1], "a")),
        (fr(&[2], "b"), fr(&[1, 2], "a")),
        (fr(&[0, 1], "a"), fr(&[1, 0], "a")),
    ] {
        v.push(Entry {
            text: format!("SWAP-PHASES {} {}", ftext(&a), ftext(&b)),
            kind: "SWAP-PHASES",
            instr: Instruction::SwapPhases(SwapPhases::new(fid(&a), fid(&b))),
            model: FrameInstr::SwapPhases { a, b },
            body_qubits: vec![],
        });
    }
    for q in [&[][..], &[0], &[1], &[2], &[0, 1], &[1, 2], &[0, 2], &[0, 1, 2], &[3], &[1, 1]] {
        let qs: Vec<String> = q.iter().map(|x| format!(" {x}")).collect();
        v.push(Entry {
            text: format!("FENCE{}", qs.concat()),
            kind: "FENCE",
            instr: Instruction::Fence(Fence::new(q.iter().map(|x| Qubit::Fixed(*x)).collect())),
            model: FrameInstr::Fence { qubits: q.to_vec() },
            body_qubits: vec![],
        });
    }
    let delay_qubits: [&[u64]; 8] = [&[0], &[1], &[2], &[0, 1], &[1, 0], &[1, 2], &[0, 2], &[0, 1, 2]];
    let delay_names: [&[&str]; 5] = [&[], &["a"], &["b"], &["a", "b"], &["c"]];
    for (i, q) in delay_qubits.iter().enumerate() {
        for (j, n) in delay_names.iter().enumerate() {
            // all name lists on the first four qubit lists, two of them on the others
            if i >= 4 && !(j == 0 || j == 1 + (i % 3)) {
                continue;
            }
            let qs: Vec<String> = q.iter().map(|x| x.to_string()).collect();
            let ns: Vec<String> = n.iter().map(|x| format!(" \"{x}\"")).collect();
            v.push(Entry {
                text: format!("DELAY {}{} 1.0", qs.join(" "), ns.concat()),
                kind: "DELAY",
                instr: Instruction::Delay(Delay::new(
                    num(1.0),
                    n.iter().map(|x| x.to_string()).collect(),
                    q.iter().map(|x| Qubit::Fixed(*x)).collect(),
                )),
                model: FrameInstr::Delay {
                    qubits: q.to_vec(),
                    names: n.iter().map(|x| x.to_string()).collect(),
                },
                body_qubits: vec![],
            });
        }
    }
    for q in [0u64, 1, 2, 3] {
        v.push(Entry {
            text: format!("RESET {q}"),
            kind: "RESET-qubit",
            instr: Instruction::Reset(Reset::new(Some(Qubit::Fixed(q)))),
            model: FrameInstr::ResetQubit { qubit: q },
            body_qubits: vec![],
        });
    }
    for body in [vec![], vec![0u64], vec![0, 1], vec![1, 2, 3]] {
        v.push(Entry {
            text: format!("RESET   (program body applies X to qubits {body:?})"),
            kind: "RESET-bare",
            instr: Instruction::Reset(Reset::new(None)),
            model: FrameInstr::ResetAll,
            body_qubits: body,
        });
    }
    v
}

fn kind_of_set(b: bool) -> &'static str {
    if b {
        "used"
    } else {
        "blocked"
    }
}

fn run(ctx: &mut Ctx) {
    let fr = |q: &[u64], n: &str| -> MFrame { (q.to_vec(), n.to_string()) };
    let mut universe: Vec<MFrame> = vec![
        fr(&[0], "a"),
        fr(&[0], "b"),
        fr(&[1], "a"),
        fr(&[1], "b"),
        fr(&[2], "a"),
        fr(&[0, 1], "a"),
        fr(&[0, 1], "b"),
        fr(&[1, 0], "a"),
        fr(&[1, 2], "a"),
        fr(&[1, 2], "b"),
    ];
    // quick: 13 frames (8 192 subsets); thorough: 16 frames (65 536 subsets)
    universe.push(fr(&[0, 1, 2], "a"));
    universe.push(fr(&[2], "c"));
    universe.push(fr(&[0, 2], "a"));
    if ctx.tier == crate::core::Tier::Thorough {
        universe.push(fr(&[2, 1], "b"));
        universe.push(fr(&[0], "c"));
        universe.push(fr(&[1, 0], "b"));
    }
    let list = entries(&universe);
    ctx.max("instruction-list-length", list.len() as u64);
    ctx.max("universe-size", universe.len() as u64);
    let mut attrs = IndexMap::new();
    attrs.insert(
        "INITIAL-FREQUENCY".to_string(),
        quil_rs::instruction::AttributeValue::Expression(num(1e8)),
    );
    let subsets = 1u64 << universe.len();
    let mut idx = 0u64;
    for mask in 0..subsets {
        let defined: BTreeSet<MFrame> = universe
            .iter()
            .enumerate()
            .filter(|(k, _)| mask >> k & 1 == 1)
            .map(|(_, f)| f.clone())
            .collect();
        let frames_text: Vec<String> = defined.iter().map(ftext).collect();
        for e in &list {
            idx += 1;
            if !ctx.mine(idx) {
                continue;
            }
            let input = format!("DEFFRAMEs: [{}]; instruction: {}", frames_text.join(", "), e.text);
            if !ctx.begin(&input) {
                continue;
            }
            ctx.count(&format!("kind:{}", e.kind));
            let observed = guarded(|| {
                let mut p = Program::new();
                for f in &defined {
                    p.add_instruction(Instruction::FrameDefinition(FrameDefinition::new(fid(f), attrs.clone())));
                }
                for q in &e.body_qubits {
                    if let Ok(g) = Gate::new("X", vec![], vec![Qubit::Fixed(*q)], vec![]) {
                        p.add_instruction(Instruction::Gate(g));
                    }
                }
                p.add_instruction(e.instr.clone());
                DefaultHandler.matching_frames(&p, &e.instr).map(|m| {
                    let used: Vec<Option<MFrame>> = m.used.iter().map(|f| mframe(f)).collect();
                    let blocked: Vec<Option<MFrame>> = m.blocked.iter().map(|f| mframe(f)).collect();
                    (used, blocked)
                })
            });
            let (used, blocked, was_none) = match observed {
                Err(p) => {
                    // the statement promises a report "for every program and instruction"
                    ctx.violation(&format!("{}:{}", e.kind, p.signature()), json!({"panic": p.to_json()}));
                    continue;
                }
                Ok(None) => (BTreeSet::new(), BTreeSet::new(), true),
                Ok(Some((u, b))) => {
                    if u.iter().chain(b.iter()).any(|f| f.is_none()) {
                        ctx.violation(&format!("{}:non-fixed-qubit-frame-reported", e.kind), json!({}));
                        continue;
                    }
                    (
                        u.into_iter().flatten().collect::<BTreeSet<MFrame>>(),
                        b.into_iter().flatten().collect::<BTreeSet<MFrame>>(),
                        false,
                    )
                }
            };
            if was_none {
                ctx.count("observed:matching_frames-none");
            }
            let show = |s: &BTreeSet<MFrame>| s.iter().map(ftext).collect::<Vec<_>>();
            // general clauses
            for (set, is_used) in [(&used, true), (&blocked, false)] {
                if let Some(f) = set.iter().find(|f| !defined.contains(*f)) {
                    ctx.violation(
                        &format!("{}:{}-frame-not-defined-in-program", e.kind, kind_of_set(is_used)),
                        json!({"frame": ftext(f), "used": show(&used), "blocked": show(&blocked)}),
                    );
                }
            }
            if used.intersection(&blocked).next().is_some() {
                ctx.violation(
                    &format!("{}:used-and-blocked-overlap", e.kind),
                    json!({"used": show(&used), "blocked": show(&blocked)}),
                );
            }
            // instruction-specific clauses
            if let Some((want_used, want_blocked)) = match_frames(&defined, &e.model) {
                for (got, want, is_used) in [(&used, &want_used, true), (&blocked, &want_blocked, false)] {
                    if got != want {
                        let dir = if want.difference(got).next().is_some() { "missing" } else { "extra" };
                        ctx.violation(
                            &format!("{}:{}-set-{dir}-frames", e.kind, kind_of_set(is_used)),
                            json!({"expected": show(want), "reported": show(got)}),
                        );
                    }
                }
            }
            if !blocked.is_empty() {
                ctx.count("observed:blocked-nonempty");
            }
            if !used.is_empty() {
                ctx.count("observed:used-nonempty");
            }
            let names_undefined = match &e.model {
                FrameInstr::Play { frame, .. } | FrameInstr::Update { frame } => !defined.contains(frame),
                FrameInstr::SwapPhases { a, b } => !defined.contains(a) || !defined.contains(b),
                _ => false,
            };
            if names_undefined {
                ctx.count("observed:instruction-names-undefined-frame");
            }
            if !used.is_empty() || !blocked.is_empty() {
                ctx.nontrivial(&input);
                ctx.sample(e.kind, json!({"case": input, "used": show(&used), "blocked": show(&blocked)}));
            }
            if ctx.done() {
                return;
            }
        }
    }
}
