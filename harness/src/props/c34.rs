//! C34 — placeholder resolution assigns unique, consistent values.
//!
//! Oracle = post-conditions checked with the harness's own walkers (`model::ast_walk`), which visit
//! every qubit / target slot of every body instruction (including the frame identifiers of
//! SET-* / SHIFT-* / SWAP-PHASES):
//!  default resolvers: no placeholder remains; placeholder -> value is a function and injective;
//!  no resolved qubit equals a fixed qubit of the body; no resolved label equals a fixed label or
//!  jump target of the body; everything that is not a placeholder is untouched;
//!  custom resolvers: exactly the placeholders with a `Some` answer are replaced, by that answer.

use crate::core::{clip, guarded, Ctx, Rng};
use crate::gen::ast_gen::{AstCfg, AstGen};
use crate::model::ast_walk::{for_each_qubit_mut, for_each_target_mut, kind_name, QubitPos};
use crate::props::{PropInfo, DEFAULT};
use quil_rs::instruction::{Instruction, Qubit, QubitPlaceholder, Target, TargetPlaceholder};
use quil_rs::Program;
use serde_json::json;
use std::collections::{BTreeSet, HashMap, HashSet};

pub static INFO: PropInfo = PropInfo {
    id: "C34",
    run: run_prop,
    rule: "bodies of 1..8 instructions over every qubit-bearing kind (Gate, MEASURE, RESET, DELAY, FENCE, PULSE, CAPTURE, RAW-CAPTURE, SET-FREQUENCY/PHASE/SCALE, SHIFT-FREQUENCY/PHASE, SWAP-PHASES) and every target-bearing kind (LABEL, JUMP, JUMP-WHEN, JUMP-UNLESS) plus fillers; qubit slots are fixed (0..5), variable or one of <= 4 shared placeholders; targets are fixed (loop_0, loop_1, base_0, ...) or one of <= 4 placeholders with shared base names (loop, end, base); four modes: default resolvers, custom resolvers defined on random subsets, custom targets + default qubits, default targets + custom qubits. distinct = (body, mode); non-trivial = body with >= 2 distinct placeholders of one kind.",
    assumptions: &[
        "the property speaks about the body: definitions (DEFCAL bodies etc.) are not part of the workload",
        "a resolved qubit 'equals a fixed qubit already used by the body' is judged against every Qubit::Fixed that occurs in any qubit slot of the original body, found by the harness's own walker",
    ],
    min_nontrivial: 500,
    required_counters: &["mode:default", "mode:custom", "mode:custom-targets-default-qubits", "mode:default-targets-custom-qubits",
        "slot:qubit-placeholder:Operand", "slot:qubit-placeholder:PlayFrame", "slot:qubit-placeholder:MutationFrame", "slot:target-placeholder"],
    ..DEFAULT
};

const KINDS: &[&str] = &[
    "Gate", "Gate", "Measurement", "Reset", "Delay", "Fence", "Pulse", "Capture", "RawCapture", "SetFrequency",
    "SetPhase", "SetScale", "ShiftFrequency", "ShiftPhase", "SwapPhases", "Label", "Jump", "JumpWhen", "JumpUnless",
    "Nop", "Move",
];

#[derive(Clone, Copy, PartialEq, Eq, Debug)]
enum Mode {
    Default,
    Custom,
    CustomTargetsDefaultQubits,
    DefaultTargetsCustomQubits,
}

fn pos_name(p: QubitPos) -> &'static str {
    match p {
        QubitPos::Operand => "Operand",
        QubitPos::PlayFrame => "PlayFrame",
        QubitPos::MutationFrame => "MutationFrame",
    }
}

fn qubit_slots(i: &Instruction) -> Vec<(Qubit, QubitPos)> {
    crate::model::ast_walk::qubits_of(i)
}
fn target_slots(i: &Instruction) -> Vec<Target> {
    crate::model::ast_walk::targets_of(i)
}

struct Case {
    body: Vec<Instruction>,
    mode: Mode,
    qmap: HashMap<QubitPlaceholder, u64>,
    tmap: HashMap<TargetPlaceholder, String>,
}

fn gen_case(rng: &mut Rng) -> Case {
    let mode = match rng.below(8) {
        0..=3 => Mode::Default,
        4 | 5 => Mode::Custom,
        6 => Mode::CustomTargetsDefaultQubits,
        _ => Mode::DefaultTargetsCustomQubits,
    };
    let len = 1 + rng.below(8);
    let mut cfg = AstCfg::plain().with_placeholders(45, 55);
    cfg.variable_qubit_pct = 8;
    let (body, qps, tps) = {
        let mut g = AstGen::new(rng, cfg);
        let body: Vec<Instruction> = (0..len)
            .map(|_| {
                let k = *g.rng.pick(KINDS);
                g.instruction_of(k)
            })
            .collect();
        (body, g.qubit_placeholders.clone(), g.target_placeholders.clone())
    };
    // custom resolvers: defined on random subsets; values deliberately arbitrary (may even collide
    // with fixed qubits: the property only says "replace exactly the placeholders they return
    // values for")
    let mut qmap = HashMap::new();
    let mut tmap = HashMap::new();
    for (k, p) in qps.iter().enumerate() {
        if rng.chance(1, 2) {
            qmap.insert(p.clone(), if rng.chance(1, 4) { rng.below(4) as u64 } else { 100 + k as u64 });
        }
    }
    for (k, p) in tps.iter().enumerate() {
        if rng.chance(1, 2) {
            tmap.insert(p.clone(), if rng.chance(1, 4) { "loop_0".to_string() } else { format!("custom-{k}") });
        }
    }
    Case { body, mode, qmap, tmap }
}

fn check(ctx: &mut Ctx, case: &Case) {
    let desc = format!("mode={:?} custom_qubits={} custom_targets={} body={}", case.mode, case.qmap.len(), case.tmap.len(), clip(&crate::model::ast_walk::canonical_debug(&case.body), 3000));
    if !ctx.begin(&desc) {
        return;
    }
    ctx.count(match case.mode {
        Mode::Default => "mode:default",
        Mode::Custom => "mode:custom",
        Mode::CustomTargetsDefaultQubits => "mode:custom-targets-default-qubits",
        Mode::DefaultTargetsCustomQubits => "mode:default-targets-custom-qubits",
    });
    let orig = &case.body;
    // facts about the original body
    let mut fixed_qubits: HashMap<u64, (bool, bool)> = HashMap::new(); // index -> (seen outside mutation frame, seen in mutation frame)
    let mut fixed_labels: HashSet<String> = HashSet::new();
    let mut qph: HashSet<QubitPlaceholder> = HashSet::new();
    let mut tph: HashSet<TargetPlaceholder> = HashSet::new();
    for i in orig {
        ctx.count(&format!("kind:{}", kind_name(i)));
        for (q, pos) in qubit_slots(i) {
            match q {
                Qubit::Fixed(v) => {
                    let e = fixed_qubits.entry(v).or_insert((false, false));
                    if pos == QubitPos::MutationFrame {
                        e.1 = true
                    } else {
                        e.0 = true
                    }
                }
                Qubit::Placeholder(p) => {
                    ctx.count(&format!("slot:qubit-placeholder:{}", pos_name(pos)));
                    qph.insert(p);
                }
                Qubit::Variable(_) => {}
            }
        }
        for t in target_slots(i) {
            match t {
                Target::Fixed(s) => {
                    fixed_labels.insert(s);
                }
                Target::Placeholder(p) => {
                    ctx.count("slot:target-placeholder");
                    tph.insert(p);
                }
            }
        }
    }
    if qph.len() >= 2 || tph.len() >= 2 {
        ctx.nontrivial(&desc);
    }
    ctx.max("distinct-qubit-placeholders", qph.len() as u64);
    ctx.max("distinct-target-placeholders", tph.len() as u64);

    // run the real code
    let body = orig.clone();
    let (mode, qmap, tmap) = (case.mode, case.qmap.clone(), case.tmap.clone());
    let resolved = guarded(move || {
        let mut p = Program::from_instructions(body);
        match mode {
            Mode::Default => p.resolve_placeholders(),
            Mode::Custom => p.resolve_placeholders_with_custom_resolvers(
                Box::new(move |k| tmap.get(k).cloned()),
                Box::new(move |k| qmap.get(k).copied()),
            ),
            Mode::CustomTargetsDefaultQubits => {
                let q = p.default_qubit_resolver();
                p.resolve_placeholders_with_custom_resolvers(Box::new(move |k| tmap.get(k).cloned()), q)
            }
            Mode::DefaultTargetsCustomQubits => {
                let t = p.default_target_resolver();
                p.resolve_placeholders_with_custom_resolvers(t, Box::new(move |k| qmap.get(k).copied()))
            }
        }
        p.body_instructions().cloned().collect::<Vec<Instruction>>()
    });
    let res = match resolved {
        Ok(r) => r,
        Err(p) => {
            ctx.violation(&p.signature(), json!({"panic": p.to_json()}));
            return;
        }
    };
    let default_qubits = matches!(case.mode, Mode::Default | Mode::CustomTargetsDefaultQubits);
    let default_targets = matches!(case.mode, Mode::Default | Mode::DefaultTargetsCustomQubits);

    let mut violations: BTreeSet<(String, String)> = BTreeSet::new();
    let mut v = |sig: String, detail: String| {
        violations.insert((sig, detail));
    };
    if res.len() != orig.len() {
        v("body-length-changed".into(), format!("{} -> {}", orig.len(), res.len()));
    }
    let mut qres: HashMap<QubitPlaceholder, u64> = HashMap::new();
    let mut tres: HashMap<TargetPlaceholder, String> = HashMap::new();
    for (k, (o, r)) in orig.iter().zip(res.iter()).enumerate() {
        let kind = kind_name(o);
        let (oq, rq) = (qubit_slots(o), qubit_slots(r));
        let (ot, rt) = (target_slots(o), target_slots(r));
        if kind_name(r) != kind || oq.len() != rq.len() || ot.len() != rt.len() {
            v(format!("instruction-shape-changed:{kind}"), format!("#{k}: {o:?} -> {r:?}"));
            continue;
        }
        // qubit slots
        for ((oqv, pos), (rqv, _)) in oq.iter().zip(rq.iter()) {
            match oqv {
                Qubit::Placeholder(p) => {
                    let must_resolve_to: Option<Option<u64>> = if default_qubits {
                        None // some value, checked below
                    } else {
                        Some(case.qmap.get(p).copied())
                    };
                    let where_ = if *pos == QubitPos::MutationFrame {
                        "frame-of-SET/SHIFT/SWAP-PHASES".to_string()
                    } else {
                        format!("{kind}:{}", pos_name(*pos))
                    };
                    match (must_resolve_to, rqv) {
                        (None, Qubit::Fixed(val)) => {
                            if let Some(prev) = qres.insert(p.clone(), *val) {
                                if prev != *val {
                                    v("qubit-placeholder-resolved-inconsistently".into(), format!("#{k} {kind}: {prev} vs {val}"));
                                }
                            }
                        }
                        (None, other) => v(
                            format!("unresolved-qubit-placeholder:{where_}"),
                            format!("#{k} {kind}: slot still {other:?} after default resolution"),
                        ),
                        (Some(Some(want)), Qubit::Fixed(val)) if val == &want => {}
                        (Some(Some(want)), other) => {
                            if matches!(other, Qubit::Placeholder(q) if q == p) {
                                v(
                                    format!("unresolved-qubit-placeholder:{where_}"),
                                    format!("#{k} {kind}: custom resolver returned Some({want}) but the slot is still the placeholder"),
                                )
                            } else {
                                v("custom:qubit-replaced-by-wrong-value".into(), format!("#{k} {kind}: want {want}, got {other:?}"))
                            }
                        }
                        (Some(None), Qubit::Placeholder(q)) if q == p => {}
                        (Some(None), other) => v(
                            "custom:qubit-replaced-without-a-value".into(),
                            format!("#{k} {kind}: resolver returned None, slot became {other:?}"),
                        ),
                    }
                }
                fixed_or_var => {
                    if fixed_or_var != rqv {
                        v(format!("non-placeholder-qubit-changed:{kind}"), format!("#{k}: {fixed_or_var:?} -> {rqv:?}"));
                    }
                }
            }
        }
        // target slots
        for (otv, rtv) in ot.iter().zip(rt.iter()) {
            match otv {
                Target::Placeholder(p) => {
                    let must: Option<Option<String>> = if default_targets { None } else { Some(case.tmap.get(p).cloned()) };
                    match (must, rtv) {
                        (None, Target::Fixed(val)) => {
                            if let Some(prev) = tres.insert(p.clone(), val.clone()) {
                                if &prev != val {
                                    v("target-placeholder-resolved-inconsistently".into(), format!("#{k} {kind}: {prev} vs {val}"));
                                }
                            }
                        }
                        (None, other) => v(format!("unresolved-target-placeholder:{kind}"), format!("#{k}: still {other:?}")),
                        (Some(Some(want)), Target::Fixed(val)) if val == &want => {}
                        (Some(Some(want)), other) => v(
                            if matches!(other, Target::Placeholder(q) if q == p) {
                                format!("unresolved-target-placeholder:{kind}")
                            } else {
                                "custom:target-replaced-by-wrong-value".to_string()
                            },
                            format!("#{k} {kind}: want {want}, got {other:?}"),
                        ),
                        (Some(None), Target::Placeholder(q)) if q == p => {}
                        (Some(None), other) => v("custom:target-replaced-without-a-value".into(), format!("#{k} {kind}: became {other:?}")),
                    }
                }
                fixed => {
                    if fixed != rtv {
                        v(format!("non-placeholder-target-changed:{kind}"), format!("#{k}: {fixed:?} -> {rtv:?}"));
                    }
                }
            }
        }
        // everything else untouched: put the observed slot values into a copy of the original
        let mut patched = o.clone();
        let mut it = rq.iter();
        for_each_qubit_mut(&mut patched, &mut |q, _| {
            if let Some((val, _)) = it.next() {
                *q = val.clone();
            }
        });
        let mut it = rt.iter();
        for_each_target_mut(&mut patched, &mut |t| {
            if let Some(val) = it.next() {
                *t = val.clone();
            }
        });
        if guarded(|| &patched != r).unwrap_or(true) {
            v(format!("non-placeholder-content-changed:{kind}"), format!("#{k}: {o:?} -> {r:?}"));
        }
    }
    // injectivity and freshness (default resolvers)
    if default_qubits {
        let mut seen: HashMap<u64, usize> = HashMap::new();
        for val in qres.values() {
            *seen.entry(*val).or_insert(0) += 1;
        }
        if seen.values().any(|&c| c > 1) {
            v("distinct-qubit-placeholders-share-a-value".into(), format!("{:?}", qres.values().collect::<Vec<_>>()));
        }
        for val in qres.values() {
            if let Some((outside, _in_mutation_frame)) = fixed_qubits.get(val) {
                if *outside {
                    v("resolved-qubit-equals-fixed-qubit".into(), format!("qubit {val} is used as a fixed qubit by the body"));
                } else {
                    v(
                        "resolved-qubit-equals-fixed-qubit:fixed-only-in-frame-of-SET/SHIFT/SWAP-PHASES".into(),
                        format!("qubit {val} is used as a fixed qubit by the body (only inside SET-*/SHIFT-*/SWAP-PHASES frames)"),
                    );
                }
            }
        }
    }
    if default_targets {
        let mut seen: HashMap<&String, usize> = HashMap::new();
        for val in tres.values() {
            *seen.entry(val).or_insert(0) += 1;
        }
        if seen.values().any(|&c| c > 1) {
            v("distinct-target-placeholders-share-a-value".into(), format!("{:?}", tres.values().collect::<Vec<_>>()));
        }
        for val in tres.values() {
            if fixed_labels.contains(val) {
                v("resolved-label-equals-existing-label".into(), format!("label {val} already occurs in the body"));
            }
        }
    }
    if violations.is_empty() {
        ctx.count("outcome:held");
        ctx.sample(
            "resolved",
            json!({"mode": format!("{:?}", case.mode), "qubits": qres.values().collect::<Vec<_>>(), "labels": tres.values().collect::<Vec<_>>(),
                   "resolved_body": clip(&format!("{res:?}"), 400)}),
        );
    } else {
        let mut seen_sigs = HashSet::new();
        for (sig, detail) in violations {
            if seen_sigs.insert(sig.clone()) {
                ctx.violation(&sig, json!({"detail": detail, "resolved_body": clip(&format!("{res:?}"), 1500)}));
            }
        }
    }
}

fn run_prop(ctx: &mut Ctx) {
    let mut rng = ctx.rng(1);
    let budget = ctx.share(ctx.tier.pick(1_500_000, 15_000_000));
    for _ in 0..budget {
        let case = gen_case(&mut rng);
        check(ctx, &case);
        if ctx.done() {
            return;
        }
    }
}
