//! C08 — serialization is deterministic and keeps definition order.
//!
//! For every generated instruction sequence the program is built ten times in this process
//! (3 x `from_instructions`, incremental `add_instruction`, `A + B` and `A += B` of two halves,
//! and, on every 8th case, 4 concurrent threads) and, for a sub-sample, in 3 fresh child processes.  Every build is
//! first judged against the ordered-map model (per definition kind: first-insertion order, a
//! redefinition replaces in place, exactly one entry per key); then all serializations of one
//! input are compared byte for byte.  Differences between builds that are already explained by
//! an order violation of the same kind are not reported a second time.
//!
//! Cross-process design: the shard re-executes its own binary (`monitor shard C08 ...`) with the
//! environment variable `VERIF_C08_CHILD=<seed>:<shard>:<k1,k2,...>`; `run` sees the variable
//! before doing anything else, regenerates exactly those cases (every case has its own PRNG
//! derived from (seed, shard, k)), prints one JSON document with the per-instruction texts and
//! the whole-program text of each case, and exits.  A batch of up to 16 cases is one evaluation.

use crate::core::{clip, guarded, hash_of, Ctx, Rng};
use crate::gen::container_gen::{describe, kind_of, ContainerGen, GenCfg, Item, Kind, DEF_KINDS};
use crate::model::container_model::ProgramModel;
use crate::props::container_util::*;
use crate::props::{PropInfo, DEFAULT};
use quil_rs::quil::Quil;
use quil_rs::Program;
use serde_json::{json, Value};
use std::collections::BTreeSet;

pub static INFO: PropInfo = PropInfo {
    id: "C08",
    run,
    rule: "random instruction sequences with 2-6 definitions of each of the 8 keyed kinds (>=30 % re-used keys, fresh values), shuffled and interleaved with body instructions; each built by from_instructions (x3), add_instruction, A+B / A+=B of two halves, in 4 concurrent threads (every 8th case), and (sub-sample, batches of <=16) in 3 fresh child processes. distinct = distinct sequence (hash of its rendering); non-trivial = at least one kind has >=2 distinct keys.",
    assumptions: &[
        "Instruction::PartialEq is used to compare listing entries with the generated instructions",
        "child processes are the same binary re-executed with VERIF_C08_CHILD set; every case is regenerated from (seed, shard, index) alone",
        "the relative order of different definition kinds in the output is not constrained by the property and is only required to be stable",
    ],
    min_nontrivial: 100,
    required_counters: &[
        "build:from_instructions",
        "build:add_instruction",
        "build:concat-halves",
        "build:thread",
        "cross-process:cases-compared",
        "redefinition-in-sequence",
    ],
    watchdog_s: 120,
    ..DEFAULT
};

const CHILD_ENV: &str = "VERIF_C08_CHILD";

struct Case {
    items: Vec<Item>,
    split: usize,
}

fn gen_case(seed: u64, shard: usize, k: u64) -> Case {
    let mut rng = Rng::from_parts(&[0xC08, seed, shard as u64, k]);
    let items = ContainerGen::new(&mut rng, GenCfg::c08()).sequence();
    let split = rng.below(items.len() + 1);
    Case { items, split }
}

fn concat_halves(case: &Case, assign: bool) -> Program {
    let a = build_from_instructions(&case.items[..case.split]);
    let b = build_incrementally(&case.items[case.split..]);
    if assign {
        let mut a = a;
        a += b;
        a
    } else {
        a + b
    }
}

/// Per-instruction (kind, text) pairs plus whole text: what a child process reports.
fn text_view(p: &Program) -> Value {
    let per: Vec<Value> = p
        .to_instructions()
        .iter()
        .map(|i| json!([kind_of(i).index(), quil_text(i)]))
        .collect();
    json!({"instructions": per, "text": quil_text(p)})
}

fn child_mode(spec: &str) -> ! {
    // <seed>:<shard>:<k,k,k>
    let mut parts = spec.split(':');
    let seed: u64 = parts.next().and_then(|s| s.parse().ok()).unwrap_or(0);
    let shard: usize = parts.next().and_then(|s| s.parse().ok()).unwrap_or(0);
    let ks: Vec<u64> = parts
        .next()
        .unwrap_or("")
        .split(',')
        .filter_map(|s| s.parse().ok())
        .collect();
    let mut out = Vec::new();
    for k in ks {
        let case = gen_case(seed, shard, k);
        let v = match guarded(|| text_view(&build_from_instructions(&case.items))) {
            Ok(v) => v,
            Err(p) => json!({"panic": p.to_json()}),
        };
        out.push(v);
    }
    println!("{}", Value::Array(out));
    std::process::exit(0);
}

fn spawn_child(seed: u64, shard: usize, ks: &[u64], n: usize) -> Result<Vec<Value>, String> {
    let exe = std::env::current_exe().map_err(|e| format!("current_exe: {e}"))?;
    let root = std::env::var("VERIF_ROOT")
        .map(std::path::PathBuf::from)
        .unwrap_or_else(|_| std::env::temp_dir());
    let workdir = root
        .join(".work")
        .join("C08-children")
        .join(format!("s{shard}-c{n}-p{}", std::process::id()));
    let spec = format!(
        "{seed}:{shard}:{}",
        ks.iter().map(|k| k.to_string()).collect::<Vec<_>>().join(",")
    );
    let out = std::process::Command::new(exe)
        .arg("shard")
        .arg("C08")
        .arg("--workdir")
        .arg(&workdir)
        .arg("--shard")
        .arg(shard.to_string())
        .env(CHILD_ENV, spec)
        .stdin(std::process::Stdio::null())
        .stderr(std::process::Stdio::null())
        .output()
        .map_err(|e| format!("spawn: {e}"))?;
    let _ = std::fs::remove_dir_all(&workdir);
    if !out.status.success() {
        return Err(format!("child exit status {:?}", out.status));
    }
    let text = String::from_utf8_lossy(&out.stdout);
    let v: Value = serde_json::from_str(text.trim()).map_err(|e| format!("child output: {e}"))?;
    v.as_array().cloned().ok_or_else(|| "child output is not an array".to_string())
}

/// Judge one in-process build against the model; returns the kinds with an order/replacement
/// violation (already reported).
fn judge_build(ctx: &mut Ctx, obs: &Observed, case: &Case, model: &ProgramModel, reported: &mut BTreeSet<String>) -> BTreeSet<Kind> {
    let mut bad = BTreeSet::new();
    for (kind, d) in diff_listing_with_model(&obs.listing, &case.items, model, &DEF_KINDS) {
        bad.insert(kind);
        let sig = match d {
            KindDiff::Permuted => format!("order:{}:not-insertion-order", kind.name()),
            other => format!("redefinition:{}:{}", kind.name(), other.name()),
        };
        if reported.insert(sig.clone()) {
            let expected: Vec<&str> = model.listing(kind).iter().map(|&i| case.items[i].desc.as_str()).collect();
            ctx.violation(
                &sig,
                json!({
                    "build": obs.how,
                    "kind": kind.name(),
                    "expected_order": expected,
                    "observed": clip_listing(&of_kind(&obs.listing, kind).into_iter().cloned().collect::<Vec<_>>(), 12),
                }),
            );
        }
    }
    bad
}

fn run(ctx: &mut Ctx) {
    if let Ok(spec) = std::env::var(CHILD_ENV) {
        child_mode(&spec);
    }
    let tier = ctx.tier;
    let (seed, shard) = (ctx.seed, ctx.shard);
    let n_cases = ctx.share(tier.pick(32_000, 400_000));
    let n_xproc = ctx.share(tier.pick(480, 6_000)).min(n_cases);

    for k in 0..n_cases {
        let case = gen_case(seed, shard, k);
        let desc = format!("case {k} split {}:\n{}", case.split, describe(&case.items));
        if !ctx.begin(&desc) {
            continue;
        }
        let model = ProgramModel::from_items(&case.items, 0..case.items.len());
        // the concatenation model must agree with the sequential one (self-check of the model)
        {
            let mut m2 = ProgramModel::from_items(&case.items, 0..case.split);
            let b = ProgramModel::from_items(&case.items, case.split..case.items.len());
            m2.concat(&case.items, &b);
            if m2 != model {
                ctx.inconclusive("model-self-check-failed");
                continue;
            }
        }
        if case.items.len() > model.definitions() + model.body.len() {
            ctx.count("redefinition-in-sequence");
        }

        // ---- builds -------------------------------------------------------------------------
        let built = guarded(|| {
            let mut v: Vec<Observed> = Vec::new();
            for _ in 0..3 {
                v.push(observe("from_instructions", &build_from_instructions(&case.items)));
            }
            v.push(observe("add_instruction", &build_incrementally(&case.items)));
            v.push(observe("A+B", &concat_halves(&case, false)));
            v.push(observe("A+=B", &concat_halves(&case, true)));
            // four concurrent threads
            let items = &case.items;
            // (every 8th case: thread start-up dominates the cost of a case otherwise)
            let n_threads = if k % 8 == 0 { 4 } else { 0 };
            let threaded: Vec<Result<Observed, ()>> = std::thread::scope(|s| {
                let hs: Vec<_> = (0..n_threads)
                    .map(|_| s.spawn(move || observe("thread", &build_from_instructions(items))))
                    .collect();
                hs.into_iter().map(|h| h.join().map_err(|_| ())).collect()
            });
            (v, threaded)
        });
        let (mut builds, threaded) = match built {
            Ok(x) => x,
            Err(p) => {
                ctx.violation(&p.signature(), panic_value(&p));
                continue;
            }
        };
        ctx.count_n("build:from_instructions", 3);
        ctx.count("build:add_instruction");
        ctx.count_n("build:concat-halves", 2);
        for t in threaded {
            match t {
                Ok(o) => {
                    ctx.count("build:thread");
                    builds.push(o);
                }
                Err(()) => ctx.violation("panic-in-thread", json!({})),
            }
        }

        // ---- model: order within each kind, replacement in place -------------------------------
        let mut reported = BTreeSet::new();
        let mut excused: BTreeSet<Kind> = BTreeSet::new();
        for obs in &builds {
            excused.extend(judge_build(ctx, obs, &case, &model, &mut reported));
        }

        // ---- determinism ----------------------------------------------------------------------
        let distinct: BTreeSet<&str> = builds.iter().map(|b| b.text.as_str()).collect();
        ctx.count(&format!("distinct-serializations-per-input:{}", distinct.len()));
        ctx.max("distinct-serializations-per-input", distinct.len() as u64);
        if builds[0].text.starts_with("ERR:") {
            ctx.count("serialization:error");
        } else {
            ctx.count("serialization:ok");
        }
        let first = &builds[0];
        let mut residual: BTreeSet<Kind> = BTreeSet::new();
        let mut arrangement = false;
        let mut who = Vec::new();
        for b in &builds[1..] {
            if b.text != first.text || b.listing != first.listing {
                let (kinds, arr) = differing_kinds(&first.listing, &b.listing);
                let res: Vec<Kind> = kinds.into_iter().filter(|k| !excused.contains(k)).collect();
                if !res.is_empty() || arr || (b.listing == first.listing && b.text != first.text) {
                    who.push(b.how);
                    residual.extend(res);
                    arrangement |= arr;
                }
            }
        }
        if !who.is_empty() {
            let scope = if who.iter().all(|h| *h == "thread") { "threads" } else { "in-process" };
            let what = if !residual.is_empty() {
                kinds_label(&residual.iter().copied().collect::<Vec<_>>())
            } else if arrangement {
                "block-arrangement".to_string()
            } else {
                "text-only".to_string()
            };
            ctx.violation(
                &format!("nondeterministic:{scope}:{what}"),
                json!({"builds_that_differ_from_first": who, "distinct_serializations": distinct.len(),
                       "first": clip(&first.text, 600)}),
            );
        }

        // ---- order inside the serialized text ---------------------------------------------------
        if first.text.starts_with("OK:") {
            for kind in DEF_KINDS {
                if excused.contains(&kind) {
                    continue;
                }
                let expected: Vec<String> = match guarded(|| {
                    model
                        .listing(kind)
                        .iter()
                        .map(|&i| case.items[i].instr.to_quil())
                        .collect::<Result<Vec<String>, _>>()
                }) {
                    Ok(Ok(v)) => v,
                    _ => continue,
                };
                if let Err(n) = texts_in_order(&first.text[3..], &expected) {
                    ctx.violation(
                        &format!("text-order:{}", kind.name()),
                        json!({"missing_or_out_of_order": expected.get(n), "text": clip(&first.text, 800)}),
                    );
                }
                ctx.count("text-order-checked");
            }
        }

        // ---- accounting -------------------------------------------------------------------------
        for kind in DEF_KINDS {
            let m = &model.maps[kind.index()];
            if m.distinct_keys() >= 2 {
                ctx.count(&format!("kind-with>=2-keys:{}", kind.name()));
            }
        }
        if model.max_distinct_keys() >= 2 {
            ctx.nontrivial(&describe(&case.items));
        }
        ctx.max("items-per-sequence", case.items.len() as u64);
        if k < 2 && shard == 0 {
            ctx.sample(
                "sequence",
                json!({"items": case.items.iter().map(|i| i.desc.clone()).collect::<Vec<_>>(),
                       "serialization": clip(&first.text, 1500), "distinct_serializations": distinct.len()}),
            );
        }
        if ctx.done() {
            return;
        }
    }

    // ---- cross-process batches --------------------------------------------------------------
    let ks_all: Vec<u64> = (0..n_xproc).collect();
    for (bn, ks) in ks_all.chunks(16).enumerate() {
        let desc = format!(
            "cross-process batch {bn}: cases {:?} of shard {shard} rebuilt in 3 child processes",
            ks
        );
        if !ctx.begin(&desc) {
            continue;
        }
        let cases: Vec<Case> = ks.iter().map(|&k| gen_case(seed, shard, k)).collect();
        // a batch announces several cases at once; count each of them as an evaluation
        ctx.evaluations += cases.len().saturating_sub(1) as u64;
        let parent: Vec<Result<Value, _>> = cases
            .iter()
            .map(|c| guarded(|| text_view(&build_from_instructions(&c.items))))
            .collect();
        let mut children = Vec::new();
        for n in 0..3 {
            match spawn_child(seed, shard, ks, n) {
                Ok(v) if v.len() == ks.len() => children.push(v),
                Ok(_) => ctx.inconclusive("child-output-wrong-length"),
                Err(e) => {
                    ctx.inconclusive(&format!("child-failed:{}", clip(&e, 40)));
                }
            }
        }
        ctx.count_n("cross-process:children-run", children.len() as u64);
        let mut reported = BTreeSet::new();
        for (ci, case) in cases.iter().enumerate() {
            let Ok(pv) = &parent[ci] else { continue };
            let model = ProgramModel::from_items(&case.items, 0..case.items.len());
            // expected per-kind texts from the generated instructions
            let mut views: Vec<(&str, &Value)> = vec![("parent", pv)];
            for c in &children {
                views.push(("child", &c[ci]));
            }
            let mut excused: BTreeSet<Kind> = BTreeSet::new();
            for (who, v) in &views {
                if v.get("panic").is_some() {
                    ctx.violation("panic-in-child", (*v).clone());
                    continue;
                }
                let per: Vec<(usize, String)> = v["instructions"]
                    .as_array()
                    .map(|a| {
                        a.iter()
                            .map(|e| (e[0].as_u64().unwrap_or(99) as usize, e[1].as_str().unwrap_or("").to_string()))
                            .collect()
                    })
                    .unwrap_or_default();
                for kind in DEF_KINDS {
                    let actual: Vec<&String> = per.iter().filter(|(k, _)| *k == kind.index()).map(|(_, t)| t).collect();
                    let expected: Vec<String> = match guarded(|| {
                        model.listing(kind).iter().map(|&i| quil_text(&case.items[i].instr)).collect::<Vec<_>>()
                    }) {
                        Ok(v) => v,
                        Err(_) => continue,
                    };
                    let expected_ref: Vec<&String> = expected.iter().collect();
                    let d = diff_seq(&actual, &expected_ref);
                    if d != KindDiff::Equal {
                        excused.insert(kind);
                        let sig = match d {
                            KindDiff::Permuted => format!("order:{}:not-insertion-order", kind.name()),
                            other => format!("redefinition:{}:{}", kind.name(), other.name()),
                        };
                        if reported.insert(sig.clone()) {
                            ctx.violation(
                                &sig,
                                json!({"build": format!("{who} process"), "case_index": ks[ci],
                                       "sequence": case.items.iter().map(|i| i.desc.clone()).collect::<Vec<_>>(),
                                       "expected_order": expected, "observed": actual}),
                            );
                        }
                    }
                }
            }
            // byte-identical text across processes
            let texts: BTreeSet<&str> = views.iter().filter_map(|(_, v)| v["text"].as_str()).collect();
            ctx.count(&format!("cross-process:distinct-serializations:{}", texts.len()));
            if children.is_empty() {
                continue;
            }
            ctx.count("cross-process:cases-compared");
            if texts.len() > 1 {
                // which kinds differ between the parent's and the children's per-instruction texts
                let mut residual: BTreeSet<Kind> = BTreeSet::new();
                let p_per = pv["instructions"].as_array().cloned().unwrap_or_default();
                for (_, v) in &views[1..] {
                    let c_per = v["instructions"].as_array().cloned().unwrap_or_default();
                    for kind in DEF_KINDS.iter().copied().chain(std::iter::once(Kind::Body)) {
                        let f = |a: &Vec<Value>| -> Vec<Value> {
                            a.iter().filter(|e| e[0].as_u64() == Some(kind.index() as u64)).cloned().collect()
                        };
                        if f(&p_per) != f(&c_per) && !excused.contains(&kind) {
                            residual.insert(kind);
                        }
                    }
                }
                let only_excused = residual.is_empty()
                    && views[1..].iter().all(|(_, v)| {
                        // same multiset of kinds/texts overall
                        let mut a: Vec<String> = p_per.iter().map(|e| e.to_string()).collect();
                        let mut b: Vec<String> =
                            v["instructions"].as_array().cloned().unwrap_or_default().iter().map(|e| e.to_string()).collect();
                        a.sort();
                        b.sort();
                        a == b
                    });
                if !only_excused {
                    let what = if residual.is_empty() {
                        "other".to_string()
                    } else {
                        kinds_label(&residual.iter().copied().collect::<Vec<_>>())
                    };
                    ctx.violation(
                        &format!("nondeterministic:processes:{what}"),
                        json!({"case_index": ks[ci], "distinct_serializations": texts.len(),
                               "sequence": case.items.iter().map(|i| i.desc.clone()).collect::<Vec<_>>()}),
                    );
                }
            }
            ctx.nontrivial(&(hash_of(&describe(&case.items)), "xproc"));
        }
        if ctx.done() {
            return;
        }
    }
}
